package main

import (
	"fmt"
	"go/token"
	"go/types"

	"golang.org/x/tools/go/ssa"
)

func (ex *Exec) unop(fr *frame, x *ssa.UnOp) Value {
	v := ex.get(fr, x.X)
	switch x.Op {
	case token.MUL: // load
		return ex.load(v.(*PtrV), x.Type())
	case token.NOT:
		return Not(v.(*Term))
	case token.SUB:
		t := v.(*Term)
		if t.S.K == SFP {
			return FNeg(t)
		}
		return BVNeg(t)
	case token.XOR:
		return BVNot(v.(*Term))
	case token.ARROW:
		ch := v.(*ChanV)
		val, ok := ex.chanRecv(ch, true, under(x.X.Type()).(*types.Chan).Elem())
		if x.CommaOk {
			return TupleV{val, mkBool(ok)}
		}
		return val
	}
	ex.unsupported("unop %v", x.Op)
	return nil
}

func (ex *Exec) binop(op token.Token, xt types.Type, a, b Value, yt types.Type) Value {
	switch op {
	case token.EQL:
		return ex.equal(a, b)
	case token.NEQ:
		return Not(ex.equal(a, b))
	}
	switch x := a.(type) {
	case *Term:
		y := b.(*Term)
		if x.S.K == SFP {
			switch op {
			case token.ADD:
				return FBin("fp.add", x, y)
			case token.SUB:
				return FBin("fp.sub", x, y)
			case token.MUL:
				return FBin("fp.mul", x, y)
			case token.QUO:
				return FBin("fp.div", x, y)
			case token.LSS:
				return FCmp("fp.lt", x, y)
			case token.LEQ:
				return FCmp("fp.leq", x, y)
			case token.GTR:
				return FCmp("fp.gt", x, y)
			case token.GEQ:
				return FCmp("fp.geq", x, y)
			}
			ex.unsupported("float binop %v", op)
		}
		if x.S.K == SBool {
			switch op {
			case token.AND, token.LAND:
				return And(x, y)
			case token.OR, token.LOR:
				return Or(x, y)
			}
			ex.unsupported("bool binop %v", op)
		}
		signed := isSigned(xt)
		switch op {
		case token.ADD:
			return BVBin("bvadd", x, y)
		case token.SUB:
			return BVBin("bvsub", x, y)
		case token.MUL:
			return BVBin("bvmul", x, y)
		case token.AND:
			return BVBin("bvand", x, y)
		case token.OR:
			return BVBin("bvor", x, y)
		case token.XOR:
			return BVBin("bvxor", x, y)
		case token.AND_NOT:
			return BVBin("bvand", x, BVNot(y))
		case token.QUO, token.REM:
			if !ex.branch(Not(Eq(y, mkBV(y.S.W, 0)))) {
				ex.gopanic("runtime error: integer divide by zero")
			}
			if op == token.QUO {
				if signed {
					return BVBin("bvsdiv", x, y)
				}
				return BVBin("bvudiv", x, y)
			}
			if signed {
				return BVBin("bvsrem", x, y)
			}
			return BVBin("bvurem", x, y)
		case token.SHL, token.SHR:
			if isSigned(yt) {
				if !ex.branch(BVCmp("bvsle", mkBV(y.S.W, 0), y)) {
					ex.gopanic("runtime error: negative shift amount")
				}
			}
			w := x.S.W
			if y.S.W > w {
				w = y.S.W
			}
			var xe *Term
			if signed {
				xe = SExt(x, w)
			} else {
				xe = ZExt(x, w)
			}
			ye := ZExt(y, w)
			var r *Term
			if op == token.SHL {
				r = BVBin("bvshl", xe, ye)
			} else if signed {
				r = BVBin("bvashr", xe, ye)
			} else {
				r = BVBin("bvlshr", xe, ye)
			}
			return Extract(r, x.S.W-1, 0)
		case token.LSS:
			if signed {
				return BVCmp("bvslt", x, y)
			}
			return BVCmp("bvult", x, y)
		case token.LEQ:
			if signed {
				return BVCmp("bvsle", x, y)
			}
			return BVCmp("bvule", x, y)
		case token.GTR:
			if signed {
				return BVCmp("bvslt", y, x)
			}
			return BVCmp("bvult", y, x)
		case token.GEQ:
			if signed {
				return BVCmp("bvsle", y, x)
			}
			return BVCmp("bvule", y, x)
		}
	case *StrV:
		y := b.(*StrV)
		switch op {
		case token.ADD:
			nb := make([]*Term, 0, len(x.B)+len(y.B))
			nb = append(nb, x.B...)
			nb = append(nb, y.B...)
			return &StrV{nb}
		case token.LSS:
			return strLess(x, y, false)
		case token.LEQ:
			return strLess(x, y, true)
		case token.GTR:
			return strLess(y, x, false)
		case token.GEQ:
			return strLess(y, x, true)
		}
	}
	ex.unsupported("binop %v on %T", op, a)
	return nil
}

func strLess(a, b *StrV, orEq bool) *Term {
	n := len(a.B)
	if len(b.B) < n {
		n = len(b.B)
	}
	var acc *Term
	if orEq {
		acc = mkBool(len(a.B) <= len(b.B))
	} else {
		acc = mkBool(len(a.B) < len(b.B))
	}
	for i := n - 1; i >= 0; i-- {
		acc = Ite(Eq(a.B[i], b.B[i]), acc, BVCmp("bvult", a.B[i], b.B[i]))
	}
	return acc
}

func strEq(a, b *StrV) *Term {
	if len(a.B) != len(b.B) {
		return falseT
	}
	acc := trueT
	for i := len(a.B) - 1; i >= 0; i-- {
		acc = And(Eq(a.B[i], b.B[i]), acc)
	}
	return acc
}

func (ex *Exec) equal(a, b Value) *Term {
	switch x := a.(type) {
	case nil:
		return mkBool(b == nil)
	case *Term:
		y := b.(*Term)
		if x.S.K == SFP {
			return FCmp("fp.eq", x, y)
		}
		return Eq(x, y)
	case *StrV:
		return strEq(x, b.(*StrV))
	case *PtrV:
		y := b.(*PtrV)
		if x.P == nil || y.P == nil {
			return mkBool(x.P == nil && y.P == nil && x.Addr == y.Addr)
		}
		return mkBool(x.Addr == y.Addr)
	case *IfaceV:
		y := b.(*IfaceV)
		if x.T == nil || y.T == nil {
			return mkBool(x.T == nil && y.T == nil)
		}
		xr, xok := x.V.(*RTV)
		yr, yok := y.V.(*RTV)
		if xok || yok {
			return mkBool(xok && yok && types.Identical(xr.T, yr.T))
		}
		if !types.Identical(x.T, y.T) {
			return falseT
		}
		if !types.Comparable(x.T) {
			ex.gopanic("runtime error: comparing uncomparable type " + x.T.String())
		}
		return ex.equal(x.V, y.V)
	case *StructV:
		y := b.(*StructV)
		acc := trueT
		for i := range x.F {
			acc = And(acc, ex.equal(x.F[i].V, y.F[i].V))
		}
		return acc
	case *ArrV:
		y := b.(*ArrV)
		n, _ := constInt(x.N)
		acc := trueT
		for i := 0; i < n; i++ {
			acc = And(acc, ex.equal(x.cell(i).V, y.cell(i).V))
		}
		return acc
	case *SliceV:
		y := b.(*SliceV)
		return mkBool(x.Arr == nil && y.Arr == nil)
	case *MapV:
		y := b.(*MapV)
		return mkBool(x == y)
	case *ChanV:
		return mkBool(x == b.(*ChanV))
	case *ClosureV:
		if y, ok := b.(*ClosureV); ok {
			return mkBool(x == nil && y == nil)
		}
		return falseT
	case *ssa.Function:
		return falseT // only comparable to nil
	case *RV:
		ex.unsupported("== on reflect.Value")
	case *OpaqueV:
		return mkBool(a == b)
	}
	ex.unsupported("equal on %T", a)
	return nil
}

// ---------- conversions ----------

func (ex *Exec) convert(from, to types.Type, v Value) Value {
	uf, ut := under(from), under(to)
	switch x := v.(type) {
	case *Term:
		if x.S.K == SBV {
			if isInteger(ut) {
				w := bvWidth(ut)
				if w <= x.S.W {
					return Extract(x, w-1, 0)
				}
				if isSigned(uf) {
					return SExt(x, w)
				}
				return ZExt(x, w)
			}
			if isFloat(ut) {
				return I2F(x, isSigned(uf), floatWidth(ut))
			}
			if isString(ut) {
				r := x
				if r.S.W > 32 {
					// out-of-range code points become U+FFFD; fold into 32 bits conservatively
					if !ex.branch(BVCmp("bvule", r, mkBV(r.S.W, 0x10ffff))) {
						return strConst("�")
					}
					r = Extract(r, 31, 0)
				} else {
					r = ZExt(r, 32)
					if isSigned(uf) && x.S.W < 32 {
						r = SExt(x, 32)
					}
				}
				return &StrV{ex.encodeRune(r)}
			}
			if b, ok := ut.(*types.Basic); ok && b.Kind() == types.UnsafePointer {
				return &PtrV{Addr: uint64(ex.concInt(x))}
			}
		}
		if x.S.K == SFP {
			if isFloat(ut) {
				return F2F(x, floatWidth(ut))
			}
			if isInteger(ut) {
				return F2I(x, isSigned(ut), bvWidth(ut))
			}
		}
		if x.S.K == SBool && isBool(ut) {
			return x
		}
	case *StrV:
		if isString(ut) {
			return x
		}
		if sl, ok := ut.(*types.Slice); ok {
			eb := under(sl.Elem()).(*types.Basic)
			if eb.Kind() == types.Uint8 {
				return ex.sliceFromTerms(sl.Elem(), x.B)
			}
			if eb.Kind() == types.Int32 {
				var rs []*Term
				for i := 0; i < len(x.B); {
					r, w := ex.decodeRune(x.B, i)
					rs = append(rs, r)
					i += w
				}
				return ex.sliceFromTerms(sl.Elem(), rs)
			}
		}
	case *SliceV:
		if isString(ut) {
			n := ex.concInt(x.Len)
			eb := under(under(from).(*types.Slice).Elem()).(*types.Basic)
			if eb.Kind() == types.Uint8 {
				bs := make([]*Term, n)
				for i := 0; i < n; i++ {
					bs[i] = x.Arr.cell(x.Off + i).V.(*Term)
				}
				return &StrV{bs}
			}
			var bs []*Term
			for i := 0; i < n; i++ {
				bs = append(bs, ex.encodeRune(x.Arr.cell(x.Off+i).V.(*Term))...)
			}
			return &StrV{bs}
		}
		if _, ok := ut.(*types.Slice); ok {
			return x
		}
	case *PtrV:
		if b, ok := ut.(*types.Basic); ok {
			if b.Kind() == types.UnsafePointer {
				return x
			}
			if b.Kind() == types.Uintptr {
				return mkBV(64, x.Addr)
			}
		}
		if pt, ok := ut.(*types.Pointer); ok {
			return &PtrV{P: x.P, Addr: x.Addr, T: pt.Elem()}
		}
	}
	ex.unsupported("convert %v -> %v (%T)", from, to, v)
	return nil
}

func (ex *Exec) sliceFromTerms(elem types.Type, ts []*Term) *SliceV {
	es := ex.sizeof(elem)
	arr := &ArrV{N: i64(int64(len(ts))), ElemT: elem, Addr: ex.alloc(int64(len(ts)) * es), ESize: es, ex: ex}
	arr.C = make([]*Cell, len(ts))
	for i, t := range ts {
		arr.C[i] = &Cell{V: t}
	}
	n := i64(int64(len(ts)))
	return &SliceV{Arr: arr, Len: n, Cap: n}
}

// encodeRune: Go's UTF-8 encoding of a 32-bit rune (invalid -> U+FFFD).
func (ex *Exec) encodeRune(r *Term) []*Term {
	c := func(v uint64) *Term { return mkBV(32, v) }
	b8 := func(t *Term) *Term { return Extract(t, 7, 0) }
	if ex.branch(BVCmp("bvult", r, c(0x80))) {
		return []*Term{b8(r)}
	}
	if ex.branch(BVCmp("bvult", r, c(0x800))) {
		return []*Term{
			b8(BVBin("bvor", c(0xC0), BVBin("bvlshr", r, c(6)))),
			b8(BVBin("bvor", c(0x80), BVBin("bvand", r, c(0x3F))))}
	}
	surrogate := And(BVCmp("bvule", c(0xD800), r), BVCmp("bvule", r, c(0xDFFF)))
	if ex.branch(Or(surrogate, BVCmp("bvult", c(0x10FFFF), r))) {
		return []*Term{mkBV(8, 0xEF), mkBV(8, 0xBF), mkBV(8, 0xBD)}
	}
	if ex.branch(BVCmp("bvult", r, c(0x10000))) {
		return []*Term{
			b8(BVBin("bvor", c(0xE0), BVBin("bvlshr", r, c(12)))),
			b8(BVBin("bvor", c(0x80), BVBin("bvand", BVBin("bvlshr", r, c(6)), c(0x3F)))),
			b8(BVBin("bvor", c(0x80), BVBin("bvand", r, c(0x3F))))}
	}
	return []*Term{
		b8(BVBin("bvor", c(0xF0), BVBin("bvlshr", r, c(18)))),
		b8(BVBin("bvor", c(0x80), BVBin("bvand", BVBin("bvlshr", r, c(12)), c(0x3F)))),
		b8(BVBin("bvor", c(0x80), BVBin("bvand", BVBin("bvlshr", r, c(6)), c(0x3F)))),
		b8(BVBin("bvor", c(0x80), BVBin("bvand", r, c(0x3F))))}
}

// decodeRune: Go's UTF-8 decoding at position i (invalid -> U+FFFD, width 1).
func (ex *Exec) decodeRune(bs []*Term, i int) (*Term, int) {
	b0 := bs[i]
	k := func(v uint64) *Term { return mkBV(8, v) }
	in := func(b *Term, lo, hi uint64) *Term { return And(BVCmp("bvule", k(lo), b), BVCmp("bvule", b, k(hi))) }
	z := func(b *Term, m uint64) *Term { return ZExt(BVBin("bvand", b, k(m)), 32) }
	sh := func(t *Term, n uint64) *Term { return BVBin("bvshl", t, mkBV(32, n)) }
	or := func(a, b *Term) *Term { return BVBin("bvor", a, b) }
	bad := mkBV(32, 0xFFFD)
	if ex.branch(BVCmp("bvult", b0, k(0x80))) {
		return ZExt(b0, 32), 1
	}
	n := len(bs) - i
	if ex.branch(in(b0, 0xC2, 0xDF)) {
		if n < 2 || !ex.branch(in(bs[i+1], 0x80, 0xBF)) {
			return bad, 1
		}
		return or(sh(z(b0, 0x1F), 6), z(bs[i+1], 0x3F)), 2
	}
	if ex.branch(in(b0, 0xE0, 0xEF)) {
		if n < 2 {
			return bad, 1
		}
		lo, hi := uint64(0x80), uint64(0xBF)
		var ok *Term
		if ex.branch(Eq(b0, k(0xE0))) {
			lo = 0xA0
		} else if ex.branch(Eq(b0, k(0xED))) {
			hi = 0x9F
		}
		ok = in(bs[i+1], lo, hi)
		if !ex.branch(ok) {
			return bad, 1
		}
		if n < 3 || !ex.branch(in(bs[i+2], 0x80, 0xBF)) {
			return bad, 1
		}
		return or(or(sh(z(b0, 0x0F), 12), sh(z(bs[i+1], 0x3F), 6)), z(bs[i+2], 0x3F)), 3
	}
	if ex.branch(in(b0, 0xF0, 0xF4)) {
		if n < 2 {
			return bad, 1
		}
		lo, hi := uint64(0x80), uint64(0xBF)
		if ex.branch(Eq(b0, k(0xF0))) {
			lo = 0x90
		} else if ex.branch(Eq(b0, k(0xF4))) {
			hi = 0x8F
		}
		if !ex.branch(in(bs[i+1], lo, hi)) {
			return bad, 1
		}
		if n < 3 || !ex.branch(in(bs[i+2], 0x80, 0xBF)) {
			return bad, 1
		}
		if n < 4 || !ex.branch(in(bs[i+3], 0x80, 0xBF)) {
			return bad, 1
		}
		return or(or(or(sh(z(b0, 0x07), 18), sh(z(bs[i+1], 0x3F), 12)), sh(z(bs[i+2], 0x3F), 6)), z(bs[i+3], 0x3F)), 4
	}
	return bad, 1
}

// ---------- maps ----------

func (ex *Exec) hashable(v Value) {
	if iv, ok := v.(*IfaceV); ok && iv.T != nil {
		if _, isRT := iv.V.(*RTV); isRT {
			return
		}
		if !types.Comparable(iv.T) {
			ex.gopanic("runtime error: hash of unhashable type " + rtypeString(iv.T))
		}
		if sv, ok := iv.V.(*StructV); ok {
			for _, c := range sv.F {
				ex.hashable(c.V)
			}
		}
	}
}

func (ex *Exec) mapFind(m *MapV, k Value) *MapEntry {
	if m == nil {
		return nil
	}
	for _, e := range m.E {
		c := ex.keyEq(e.K, k)
		if ex.branch(c) {
			return e
		}
	}
	return nil
}

// keyEq is == for map keys, except that floats use == too (NaN never matches) which is Go's behaviour.
func (ex *Exec) keyEq(a, b Value) *Term {
	if ia, ok := a.(*IfaceV); ok {
		ib := b.(*IfaceV)
		if ia.T == nil || ib.T == nil {
			return mkBool(ia.T == nil && ib.T == nil)
		}
		if _, isRT := ia.V.(*RTV); !isRT {
			if !types.Identical(ia.T, ib.T) {
				return falseT
			}
			return ex.equal(ia.V, ib.V)
		}
	}
	return ex.equal(a, b)
}

func (ex *Exec) lookup(x *ssa.Lookup, xv Value, k Value) Value {
	if s, ok := xv.(*StrV); ok {
		return ex.strIndex(s, ex.toInt64(k.(*Term), x.Index.Type()))
	}
	m := xv.(*MapV)
	mt := under(x.X.Type()).(*types.Map)
	if types.IsInterface(mt.Key()) {
		ex.hashable(k)
	}
	e := ex.mapFind(m, k)
	var v Value
	if e != nil {
		v = ex.copyVal(e.C.V)
	} else {
		v = ex.zero(mt.Elem(), 0)
	}
	if x.CommaOk {
		return TupleV{v, mkBool(e != nil)}
	}
	return v
}

func (ex *Exec) mapUpdate(m *MapV, k, v Value) {
	if m == nil {
		ex.gopanic("assignment to entry in nil map")
	}
	if types.IsInterface(m.KT) {
		ex.hashable(k)
	}
	e := ex.mapFind(m, k)
	if m.RO != "" {
		if e == nil || ex.roMatters(m.RO, e.C.V, v) {
			ex.roStore(m.RO)
		}
	}
	if e != nil {
		e.C.V = ex.copyVal(v)
		return
	}
	m.E = append(m.E, &MapEntry{K: k, C: &Cell{V: ex.copyVal(v)}})
	m.gen++
}

func (ex *Exec) mapDelete(m *MapV, k Value) {
	if m == nil {
		return
	}
	if m.RO != "" {
		ex.roStore(m.RO)
	}
	for i, e := range m.E {
		if ex.branch(ex.keyEq(e.K, k)) {
			m.E = append(m.E[:i:i], m.E[i+1:]...)
			m.gen++
			return
		}
	}
}

// mapOrder returns a nondeterministic iteration order over n entries: all permutations for n<=3,
// insertion order and its reverse beyond (stated bound).
func (ex *Exec) mapOrder(n int) []int {
	idx := make([]int, n)
	for i := range idx {
		idx[i] = i
	}
	if n <= 1 {
		return idx
	}
	if n <= 3 && !ex.fixedOrder() {
		// Fisher-Yates driven by choices
		for i := 0; i < n-1; i++ {
			j := i + ex.choice(n-i)
			idx[i], idx[j] = idx[j], idx[i]
		}
		return idx
	}
	if ex.fixedOrder() {
		return idx
	}
	if ex.choice(2) == 1 {
		for i, j := 0, n-1; i < j; i, j = i+1, j-1 {
			idx[i], idx[j] = idx[j], idx[i]
		}
	}
	return idx
}

type iterV struct {
	m       *MapV
	entries []*MapEntry
	pos     int
	seen    map[*MapEntry]bool
	str     *StrV
	spos    int
}

func (ex *Exec) rangeIter(v Value) Value {
	switch x := v.(type) {
	case *MapV:
		it := &iterV{m: x, seen: map[*MapEntry]bool{}}
		if x != nil {
			ord := ex.mapOrder(len(x.E))
			for _, i := range ord {
				it.entries = append(it.entries, x.E[i])
			}
		}
		return it
	case *StrV:
		return &iterV{str: x}
	}
	ex.unsupported("range over %T", v)
	return nil
}

func (ex *Exec) next(it *iterV, x *ssa.Next) Value {
	if x.IsString {
		if it.spos >= len(it.str.B) {
			return TupleV{falseT, i64(0), mkBV(32, 0)}
		}
		r, w := ex.decodeRune(it.str.B, it.spos)
		p := it.spos
		it.spos += w
		return TupleV{trueT, i64(int64(p)), r}
	}
	tt := x.Type().(*types.Tuple)
	zeroK := func() Value { return ex.zero(tt.At(1).Type(), 0) }
	zeroV := func() Value { return ex.zero(tt.At(2).Type(), 0) }
	present := func(e *MapEntry) bool {
		for _, c := range it.m.E {
			if c == e {
				return true
			}
		}
		return false
	}
	for it.pos < len(it.entries) {
		e := it.entries[it.pos]
		it.pos++
		if !present(e) {
			continue
		}
		it.seen[e] = true
		return TupleV{trueT, e.K, ex.copyVal(e.C.V)}
	}
	// entries added during iteration may or may not be produced
	if it.m != nil {
		for _, e := range it.m.E {
			if it.seen[e] {
				continue
			}
			inSnap := false
			for _, s := range it.entries {
				if s == e {
					inSnap = true
				}
			}
			if inSnap {
				continue
			}
			it.seen[e] = true
			if ex.fixedOrder() || ex.choice(2) == 0 {
				continue // not visited
			}
			return TupleV{trueT, e.K, ex.copyVal(e.C.V)}
		}
	}
	return TupleV{falseT, zeroK(), zeroV()}
}

// ---------- channels ----------

func (ex *Exec) chanSend(ch *ChanV, v Value, blocking bool) bool {
	if ch == nil {
		if blocking {
			panic(pathEnd{"blocked", "send on nil channel blocks forever"})
		}
		return false
	}
	if len(ch.Buf) < ch.Cap {
		ch.Buf = append(ch.Buf, v)
		return true
	}
	if blocking {
		panic(pathEnd{"blocked", "send on full channel blocks (no receiver in a sequential step)"})
	}
	return false
}

func (ex *Exec) chanRecv(ch *ChanV, blocking bool, elem types.Type) (Value, bool) {
	if ch == nil || len(ch.Buf) == 0 {
		if blocking {
			panic(pathEnd{"blocked", "receive on empty channel blocks (no sender in a sequential step)"})
		}
		return ex.zero(elem, 0), false
	}
	v := ch.Buf[0]
	ch.Buf = ch.Buf[1:]
	return v, true
}

func (ex *Exec) selectOp(fr *frame, x *ssa.Select) Value {
	// result: (index int, recvOk bool, r_0 T_0, ... r_n-1 T_n-1)
	tt := x.Type().(*types.Tuple)
	res := make(TupleV, tt.Len())
	for i := 0; i < tt.Len(); i++ {
		res[i] = ex.zero(tt.At(i).Type(), 0)
	}
	ri := 2
	var enabled []int
	for i, st := range x.States {
		ch := ex.get(fr, st.Chan).(*ChanV)
		if st.Dir == types.SendOnly {
			if ch != nil && len(ch.Buf) < ch.Cap {
				enabled = append(enabled, i)
			}
		} else {
			if ch != nil && len(ch.Buf) > 0 {
				enabled = append(enabled, i)
			}
		}
	}
	if len(enabled) == 0 {
		if x.Blocking {
			panic(pathEnd{"blocked", "select with no ready case blocks"})
		}
		res[0] = i64(-1)
		return res
	}
	pickIdx := enabled[ex.choice(len(enabled))]
	for i, st := range x.States {
		ch := ex.get(fr, st.Chan).(*ChanV)
		if st.Dir == types.SendOnly {
			if i == pickIdx {
				ex.chanSend(ch, ex.get(fr, st.Send), false)
			}
		} else {
			if i == pickIdx {
				v, _ := ex.chanRecv(ch, false, under(st.Chan.Type()).(*types.Chan).Elem())
				res[ri] = v
				res[1] = trueT
			}
			ri++
		}
	}
	res[0] = i64(int64(pickIdx))
	return res
}

// ---------- builtins ----------

func (ex *Exec) builtin(fr *frame, b *ssa.Builtin, args []Value, c *ssa.CallCommon) Value {
	switch b.Name() {
	case "len":
		switch x := args[0].(type) {
		case *StrV:
			return i64(int64(len(x.B)))
		case *SliceV:
			return x.Len
		case *MapV:
			if x == nil {
				return i64(0)
			}
			return i64(int64(len(x.E)))
		case *ChanV:
			if x == nil {
				return i64(0)
			}
			return i64(int64(len(x.Buf)))
		case *ArrV:
			return x.N
		case *PtrV:
			return x.P.V.(*ArrV).N
		}
	case "cap":
		switch x := args[0].(type) {
		case *SliceV:
			return x.Cap
		case *ChanV:
			if x == nil {
				return i64(0)
			}
			return i64(int64(x.Cap))
		case *ArrV:
			return x.N
		case *PtrV:
			return x.P.V.(*ArrV).N
		}
	case "append":
		return ex.appendOp(args[0].(*SliceV), args[1], c.Args[0].Type())
	case "copy":
		return ex.copyOp(args[0].(*SliceV), args[1])
	case "delete":
		ex.mapDelete(args[0].(*MapV), args[1])
		return nil
	case "print", "println":
		return nil
	case "recover":
		if n := len(ex.panicStack); n > 0 {
			pf := ex.panicStack[n-1]
			if pf.panicVal != nil {
				v := pf.panicVal.v
				pf.panicVal = nil
				return v
			}
		}
		return &IfaceV{}
	case "min", "max":
		acc := args[0].(*Term)
		t := c.Args[0].Type()
		for _, a := range args[1:] {
			y := a.(*Term)
			var lt *Term
			if acc.S.K == SFP {
				lt = FCmp("fp.lt", acc, y)
			} else if isSigned(t) {
				lt = BVCmp("bvslt", acc, y)
			} else {
				lt = BVCmp("bvult", acc, y)
			}
			if b.Name() == "min" {
				acc = Ite(lt, acc, y)
			} else {
				acc = Ite(lt, y, acc)
			}
		}
		return acc
	case "close":
		return nil
	case "ssa:wrapnilchk":
		p := args[0].(*PtrV)
		if p.P == nil {
			ex.gopanic("value method called using nil pointer")
		}
		return p
	case "clear":
		switch x := args[0].(type) {
		case *MapV:
			if x != nil {
				x.E = nil
			}
		}
		return nil
	}
	ex.unsupported("builtin %s on %T", b.Name(), args[0])
	return nil
}

func (ex *Exec) appendOp(s *SliceV, more Value, st types.Type) Value {
	var elems []Value
	switch m := more.(type) {
	case *StrV:
		for _, b := range m.B {
			elems = append(elems, b)
		}
	case *SliceV:
		n := ex.concInt(m.Len)
		for i := 0; i < n; i++ {
			elems = append(elems, ex.copyVal(m.Arr.cell(m.Off+i).V))
		}
	}
	if len(elems) == 0 {
		return s
	}
	elemT := under(st).(*types.Slice).Elem()
	return ex.appendVals(s, elems, elemT)
}

func (ex *Exec) appendVals(s *SliceV, elems []Value, elemT types.Type) *SliceV {
	n := ex.concInt(s.Len)
	cp := ex.concInt(s.Cap)
	if s.Arr != nil && n+len(elems) <= cp {
		for i, e := range elems {
			ex.storeInto(s.Arr.cell(s.Off+n+i), e)
		}
		return &SliceV{Arr: s.Arr, Off: s.Off, Len: i64(int64(n + len(elems))), Cap: s.Cap}
	}
	ncap := cp * 2
	if ncap < n+len(elems) {
		ncap = n + len(elems)
	}
	if ncap < 4 && ex.sizeof(elemT) <= 8 {
		// runtime rounds tiny allocations up; exact capacity only affects aliasing
		if n+len(elems) > ncap {
			ncap = n + len(elems)
		}
	}
	es := ex.sizeof(elemT)
	arr := &ArrV{N: i64(int64(ncap)), ElemT: elemT, Addr: ex.alloc(int64(ncap) * es), ESize: es, ex: ex}
	for i := 0; i < n; i++ {
		arr.cell(i).V = ex.copyVal(s.Arr.cell(s.Off + i).V)
	}
	for i, e := range elems {
		arr.cell(n + i).V = ex.copyVal(e)
	}
	return &SliceV{Arr: arr, Len: i64(int64(n + len(elems))), Cap: i64(int64(ncap))}
}

func (ex *Exec) copyOp(dst *SliceV, src Value) Value {
	var srcLen *Term
	var get func(i int) Value
	switch s := src.(type) {
	case *StrV:
		srcLen = i64(int64(len(s.B)))
		get = func(i int) Value { return s.B[i] }
	case *SliceV:
		srcLen = s.Len
		get = func(i int) Value { return ex.copyVal(s.Arr.cell(s.Off + i).V) }
	}
	var n int
	if ex.branch(BVCmp("bvslt", dst.Len, srcLen)) {
		n = ex.concInt(dst.Len)
	} else {
		n = ex.concInt(srcLen)
	}
	if n == 0 {
		return i64(0)
	}
	// overlapping copies within one array: read all first
	vals := make([]Value, n)
	for i := 0; i < n; i++ {
		vals[i] = get(i)
	}
	for i := 0; i < n; i++ {
		ex.storeInto(dst.Arr.cell(dst.Off+i), vals[i])
	}
	return i64(int64(n))
}

var _ = fmt.Sprint
