package main

// Solver access. Every query is a conjunction of terms (a slice of the path condition plus the formula of
// interest). Small bit-vector queries go to one long-lived incremental z3 process (push / assert / check /
// pop); floating-point queries and anything the incremental core does not settle within its short timeout go
// to a fresh one-shot process, where z3 applies its full preprocessing and bit-blasting tactic. In
// integer-arithmetic mode equivalent scripts are raced on several back ends.

import (
	"bufio"
	"context"
	"fmt"
	"io"
	"os"
	"os/exec"
	"sort"
	"strconv"
	"strings"
	"time"
)

type Verdict int

const (
	Sat Verdict = iota
	Unsat
	Unknown
)

func (v Verdict) String() string { return [...]string{"sat", "unsat", "unknown"}[v] }

type SolverStats struct {
	Sat, Unsat, Unknown int
	Errors              int
	Time                time.Duration
	Queries             int
	OneShot             int
}

type Solver struct {
	name        string
	argv        []string
	cmd         *exec.Cmd
	in          io.WriteCloser
	out         *bufio.Reader
	declared    map[string]*Term
	Stats       SolverStats
	timeout     int // ms (incremental core)
	hardTimeout int // ms (one-shot)
	lastErr     string
	level       int
}

func NewSolver(kind string, timeoutMs int) *Solver {
	s := &Solver{name: kind, timeout: 1500, hardTimeout: timeoutMs}
	if timeoutMs < s.timeout {
		s.timeout = timeoutMs
	}
	s.argv = []string{"z3", "-in"}
	s.start()
	return s
}

func (s *Solver) start() {
	s.cmd = exec.Command(s.argv[0], s.argv[1:]...)
	var err error
	s.in, err = s.cmd.StdinPipe()
	if err != nil {
		panic(err)
	}
	op, err := s.cmd.StdoutPipe()
	if err != nil {
		panic(err)
	}
	s.cmd.Stderr = s.cmd.Stdout
	s.out = bufio.NewReaderSize(op, 1<<20)
	if err := s.cmd.Start(); err != nil {
		panic(err)
	}
	s.declared = map[string]*Term{}
	s.level = 0
	s.send("(set-option :global-declarations true)")
	s.send(fmt.Sprintf("(set-option :timeout %d)", s.timeout))
	s.send("(set-option :produce-models true)")
}

func (s *Solver) Close() {
	if s.cmd != nil {
		s.in.Close()
		s.cmd.Process.Kill()
		s.cmd.Wait()
		s.cmd = nil
	}
}

func (s *Solver) Restart() {
	s.Close()
	s.start()
}

func (s *Solver) send(line string) {
	io.WriteString(s.in, line)
	io.WriteString(s.in, "\n")
}

func (s *Solver) readLine() string {
	l, err := s.out.ReadString('\n')
	if err != nil {
		return "(error \"solver died: " + err.Error() + "\")"
	}
	return strings.TrimSpace(l)
}

// readSexp reads a complete balanced s-expression (possibly multi-line).
func (s *Solver) readSexp() string {
	var sb strings.Builder
	depth := 0
	started := false
	for {
		l, err := s.out.ReadString('\n')
		if err != nil {
			return sb.String()
		}
		sb.WriteString(l)
		for _, c := range l {
			if c == '(' {
				depth++
				started = true
			} else if c == ')' {
				depth--
			}
		}
		if started && depth <= 0 {
			return sb.String()
		}
		if !started && strings.TrimSpace(l) != "" {
			return sb.String()
		}
	}
}

func declLine(v *Term) string { return fmt.Sprintf("(declare-const %s %s)", v.Name, v.S.String()) }

func (s *Solver) declareVars(vars map[string]*Term) {
	names := make([]string, 0, len(vars))
	for n := range vars {
		if _, ok := s.declared[n]; !ok {
			names = append(names, n)
		}
	}
	sort.Strings(names)
	for _, n := range names {
		v := vars[n]
		s.declared[n] = v
		s.send(declLine(v))
	}
}

// rendered caches the SMT-LIB text and variable set of a term.
type rendered struct {
	t     *Term
	expr  string
	vars  map[string]*Term
	hasFP bool
	hard  bool // multiplication / division with symbolic operands: bit-blasting back ends tend to time out
}

func renderCached(cache map[*Term]*rendered, t *Term) *rendered {
	if r, ok := cache[t]; ok {
		return r
	}
	e, vars := Render(t)
	r := &rendered{t: t, expr: e, vars: vars, hasFP: strings.Contains(e, "fp.") || strings.Contains(e, "to_fp")}
	r.hard = strings.Contains(e, "bvmul") || strings.Contains(e, "bvsdiv") || strings.Contains(e, "bvudiv") ||
		strings.Contains(e, "bvsrem") || strings.Contains(e, "bvurem")
	cache[t] = r
	return r
}

// bvScriptOf builds a standalone script for a conjunction.
func bvScriptOf(conj []*rendered, vars []*Term) string {
	var sb strings.Builder
	decl := map[string]*Term{}
	for _, c := range conj {
		for n, v := range c.vars {
			decl[n] = v
		}
	}
	for _, v := range vars {
		decl[v.Name] = v
	}
	names := make([]string, 0, len(decl))
	for n := range decl {
		names = append(names, n)
	}
	sort.Strings(names)
	for _, n := range names {
		sb.WriteString(declLine(decl[n]) + "\n")
	}
	for _, c := range conj {
		sb.WriteString("(assert " + c.expr + ")\n")
	}
	sb.WriteString("(check-sat)\n")
	if len(vars) > 0 {
		sb.WriteString("(get-value (")
		for _, v := range vars {
			sb.WriteString(v.Name + " ")
		}
		sb.WriteString("))\n")
	}
	return sb.String()
}

// SolveConj decides a conjunction and returns values of vars when sat.
func (s *Solver) SolveConj(conj []*rendered, vars []*Term) (vv Verdict, mm Model) {
	fp := false
	for _, c := range conj {
		if c.hasFP {
			fp = true
		}
	}
	if os.Getenv("VERIF_QLOG") != "" {
		t0 := time.Now()
		defer func() {
			fmt.Fprintf(os.Stderr, "QLOG solve %s %.2fs fp=%v conj=%d\n", vv, time.Since(t0).Seconds(), fp, len(conj))
		}()
	}
	if !fp {
		t0 := time.Now()
		s.send("(push 1)")
		for _, c := range conj {
			s.declareVars(c.vars)
			s.send("(assert " + c.expr + ")")
		}
		for _, v := range vars {
			s.declareVars(map[string]*Term{v.Name: v})
		}
		v, bad := s.checkLine()
		var m Model
		if v == Sat && !bad {
			m = s.model(vars)
		}
		s.send("(pop 1)")
		s.Stats.Time += time.Since(t0)
		if !bad && v != Unknown {
			s.Stats.Queries++
			if v == Sat {
				s.Stats.Sat++
			} else {
				s.Stats.Unsat++
			}
			return v, m
		}
	}
	return s.oneShotScriptWith("z3", bvScriptOf(conj, vars), len(vars) > 0)
}

// checkLine sends check-sat and reads the verdict; bad=true if any error line was seen.
func (s *Solver) checkLine() (Verdict, bool) {
	s.send("(check-sat)")
	bad := false
	for {
		l := s.readLine()
		switch {
		case l == "sat":
			return Sat, bad
		case l == "unsat":
			return Unsat, bad
		case l == "unknown" || l == "timeout":
			return Unknown, bad
		case strings.HasPrefix(l, "(error"):
			s.lastErr = l
			s.Stats.Errors++
			bad = true
			if strings.Contains(l, "solver died") {
				s.Restart()
				return Unknown, true
			}
		case l == "" || strings.HasPrefix(l, ";") || strings.HasPrefix(l, "WARNING"):
		default:
			s.lastErr = "unexpected solver output: " + l
			s.Stats.Errors++
			bad = true
		}
	}
}

func (s *Solver) model(vars []*Term) Model {
	if len(vars) == 0 {
		return Model{}
	}
	var sb strings.Builder
	sb.WriteString("(get-value (")
	for _, v := range vars {
		sb.WriteString(v.Name)
		sb.WriteString(" ")
	}
	sb.WriteString("))")
	s.send(sb.String())
	return parseModel(s.readSexp())
}

func tokenize(s string) []string {
	var toks []string
	cur := strings.Builder{}
	flush := func() {
		if cur.Len() > 0 {
			toks = append(toks, cur.String())
			cur.Reset()
		}
	}
	for _, c := range s {
		switch c {
		case '(', ')':
			flush()
			toks = append(toks, string(c))
		case ' ', '\n', '\t', '\r':
			flush()
		default:
			cur.WriteRune(c)
		}
	}
	flush()
	return toks
}

func parseValue(v []string) uint64 {
	if len(v) == 1 {
		a := v[0]
		switch {
		case a == "true":
			return 1
		case a == "false":
			return 0
		case strings.HasPrefix(a, "#x"):
			u, _ := strconv.ParseUint(a[2:], 16, 64)
			return u
		case strings.HasPrefix(a, "#b"):
			u, _ := strconv.ParseUint(a[2:], 2, 64)
			return u
		}
		if u, err := strconv.ParseUint(a, 10, 64); err == nil {
			return u
		}
		return 0
	}
	// (_ bvN w)
	if len(v) >= 4 && v[1] == "_" && strings.HasPrefix(v[2], "bv") {
		u, _ := strconv.ParseUint(v[2][2:], 10, 64)
		return u
	}
	return 0
}

func parseModel(resp string) Model {
	m := Model{}
	toks := tokenize(resp)
	if len(toks) == 0 || toks[0] != "(" {
		return m
	}
	i := 1
	for i+1 < len(toks) && toks[i] == "(" {
		name := toks[i+1]
		i += 2
		var val []string
		if toks[i] == "(" {
			d := 0
			for i < len(toks) {
				val = append(val, toks[i])
				if toks[i] == "(" {
					d++
				} else if toks[i] == ")" {
					d--
				}
				i++
				if d == 0 {
					break
				}
			}
		} else {
			val = []string{toks[i]}
			i++
		}
		i++
		m[name] = parseValue(val)
	}
	return m
}

func (s *Solver) oneShotScriptWith(bin string, script string, wantModel bool) (Verdict, Model) {
	t0 := time.Now()
	ctx, cancel := context.WithTimeout(context.Background(), time.Duration(s.hardTimeout+3000)*time.Millisecond)
	defer cancel()
	cmd := exec.CommandContext(ctx, bin, "-in", fmt.Sprintf("-t:%d", s.hardTimeout))
	cmd.Stdin = strings.NewReader(script)
	out, _ := cmd.CombinedOutput()
	txt := string(out)
	s.Stats.Queries++
	s.Stats.OneShot++
	s.Stats.Time += time.Since(t0)
	if d := os.Getenv("VERIF_DUMP_SLOW"); d != "" && time.Since(t0) > 3*time.Second {
		dumpCounter++
		os.WriteFile(fmt.Sprintf("%s/oneshot-%d-%d-%.1fs.smt2", d, os.Getpid(), dumpCounter, time.Since(t0).Seconds()), []byte(script), 0o644)
	}
	lines := strings.SplitN(txt, "\n", 2)
	first := strings.TrimSpace(lines[0])
	switch first {
	case "unsat":
		if strings.Contains(txt, "(error") && !benignErrors(txt, Unsat) {
			break
		}
		s.Stats.Unsat++
		return Unsat, nil
	case "sat":
		if strings.Contains(txt, "(error") {
			break
		}
		s.Stats.Sat++
		m := Model{}
		if wantModel && len(lines) > 1 {
			m = parseModel(lines[1])
		}
		return Sat, m
	}
	if strings.Contains(txt, "(error") {
		s.lastErr = first
		s.Stats.Errors++
	}
	s.Stats.Unknown++
	return Unknown, nil
}

var dumpCounter int

// RunScript runs a standalone script on another solver binary and returns its verdict.
func RunScript(kind string, script string, timeoutMs int) Verdict {
	var argv []string
	pre := ""
	switch kind {
	case "z3":
		argv = []string{"z3", "-in", fmt.Sprintf("-t:%d", timeoutMs)}
	case "z3-new":
		argv = []string{"z3-new", "-in", fmt.Sprintf("-t:%d", timeoutMs)}
	case "cvc5":
		argv = []string{"cvc5", "--lang=smt2", fmt.Sprintf("--tlimit=%d", timeoutMs)}
		pre = "(set-logic ALL)\n"
	case "cvc5-int":
		argv = []string{"cvc5", "--lang=smt2", "--solve-bv-as-int=sum", fmt.Sprintf("--tlimit=%d", timeoutMs)}
		pre = "(set-logic ALL)\n"
	}
	ctx, cancel := context.WithTimeout(context.Background(), time.Duration(timeoutMs+3000)*time.Millisecond)
	defer cancel()
	cmd := exec.CommandContext(ctx, argv[0], argv[1:]...)
	cmd.Stdin = strings.NewReader(pre + script)
	out, _ := cmd.CombinedOutput()
	txt := string(out)
	first := strings.TrimSpace(strings.SplitN(txt, "\n", 2)[0])
	if strings.Contains(txt, "(error") && !(first == "unsat" && benignErrors(txt, Unsat)) {
		return Unknown
	}
	switch first {
	case "sat":
		return Sat
	case "unsat":
		return Unsat
	}
	return Unknown
}

type racer struct {
	name   string
	argv   []string
	script string
	strip  string // suffix to strip from model variable names
}

type raceResult struct {
	v    Verdict
	m    Model
	name string
}

// race runs several solver processes on equivalent scripts and returns the first definite answer.
func (s *Solver) race(rs []racer, wantModel bool, timeout time.Duration) (Verdict, Model, string) {
	t0 := time.Now()
	ctx, cancel := context.WithTimeout(context.Background(), timeout)
	defer cancel()
	ch := make(chan raceResult, len(rs))
	for _, r := range rs {
		go func(r racer) {
			cmd := exec.CommandContext(ctx, r.argv[0], r.argv[1:]...)
			cmd.Stdin = strings.NewReader(r.script)
			out, _ := cmd.CombinedOutput()
			txt := strings.TrimSpace(string(out))
			lines := strings.SplitN(txt, "\n", 2)
			res := raceResult{v: Unknown, name: r.name}
			switch strings.TrimSpace(lines[0]) {
			case "unsat":
				res.v = Unsat
			case "sat":
				res.v = Sat
				res.m = Model{}
				if wantModel && len(lines) > 1 {
					for k, val := range parseModel(lines[1]) {
						res.m[strings.TrimSuffix(k, r.strip)] = val
					}
				}
			}
			if strings.Contains(txt, "(error") && !benignErrors(txt, res.v) {
				res.v = Unknown
			}
			ch <- res
		}(r)
	}
	var out raceResult
	out.v = Unknown
	for i := 0; i < len(rs); i++ {
		r := <-ch
		if r.v != Unknown {
			out = r
			cancel()
			break
		}
	}
	s.Stats.Queries++
	s.Stats.OneShot++
	s.Stats.Time += time.Since(t0)
	switch out.v {
	case Sat:
		s.Stats.Sat++
	case Unsat:
		s.Stats.Unsat++
	default:
		s.Stats.Unknown++
	}
	return out.v, out.m, out.name
}

// benignErrors: after an unsat answer the only acceptable error is the refused get-value.
func benignErrors(txt string, v Verdict) bool {
	if v != Unsat {
		return false
	}
	for _, l := range strings.Split(txt, "\n") {
		if strings.Contains(l, "(error") {
			if !(strings.Contains(l, "model is not available") || strings.Contains(l, "get-value") ||
				strings.Contains(l, "cannot get value") || strings.Contains(l, "Cannot get value")) {
				return false
			}
		}
	}
	return true
}
