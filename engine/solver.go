package main

// One long-lived solver process per worker (z3 -in), driven with push/pop.

import (
	"bufio"
	"fmt"
	"context"
	"io"
	"os"
	"os/exec"
	"sort"
	"strconv"
	"strings"
	"time"
)

type Verdict int

const (
	Sat Verdict = iota
	Unsat
	Unknown
)

func (v Verdict) String() string { return [...]string{"sat", "unsat", "unknown"}[v] }

type SolverStats struct {
	Sat, Unsat, Unknown int
	Errors              int
	Time                time.Duration
	Queries             int
	OneShot             int
}

type Solver struct {
	name     string
	argv     []string
	cmd      *exec.Cmd
	in       io.WriteCloser
	out      *bufio.Reader
	declared map[string]*Term
	declLog  []string
	stack    [][]string // assertion text per level
	Stats    SolverStats
	timeout  int // ms (incremental core)
	hardTimeout int // ms (one-shot)
	lastErr  string
}

func NewSolver(kind string, timeoutMs int) *Solver {
	s := &Solver{name: kind, timeout: 1500, hardTimeout: timeoutMs}
	if timeoutMs < s.timeout {
		s.timeout = timeoutMs
	}
	switch kind {
	case "z3":
		s.argv = []string{"z3", "-in"}
	case "z3-new":
		s.argv = []string{"z3-new", "-in"}
	case "cvc5":
		s.argv = []string{"cvc5", "--incremental", "--lang=smt2", fmt.Sprintf("--tlimit-per=%d", timeoutMs)}
	case "cvc5-int":
		s.argv = []string{"cvc5", "--incremental", "--lang=smt2", "--solve-bv-as-int=sum", fmt.Sprintf("--tlimit-per=%d", timeoutMs)}
	default:
		panic("unknown solver " + kind)
	}
	s.start()
	return s
}

func (s *Solver) start() {
	s.cmd = exec.Command(s.argv[0], s.argv[1:]...)
	var err error
	s.in, err = s.cmd.StdinPipe()
	if err != nil {
		panic(err)
	}
	op, err := s.cmd.StdoutPipe()
	if err != nil {
		panic(err)
	}
	s.cmd.Stderr = s.cmd.Stdout
	s.out = bufio.NewReaderSize(op, 1<<20)
	if err := s.cmd.Start(); err != nil {
		panic(err)
	}
	s.declared = map[string]*Term{}
	s.declLog = nil
	s.stack = [][]string{nil}
	s.send("(set-option :global-declarations true)")
	if strings.HasPrefix(s.name, "z3") {
		s.send(fmt.Sprintf("(set-option :timeout %d)", s.timeout))
	} else {
		s.send("(set-logic ALL)")
	}
	s.send("(set-option :produce-models true)")
}

func (s *Solver) Close() {
	if s.cmd != nil {
		s.in.Close()
		s.cmd.Process.Kill()
		s.cmd.Wait()
		s.cmd = nil
	}
}

func (s *Solver) Restart() {
	s.Close()
	s.start()
}

func (s *Solver) send(line string) {
	io.WriteString(s.in, line)
	io.WriteString(s.in, "\n")
}

func (s *Solver) readLine() string {
	l, err := s.out.ReadString('\n')
	if err != nil {
		return "(error \"solver died: " + err.Error() + "\")"
	}
	return strings.TrimSpace(l)
}

// readSexp reads a complete balanced s-expression (possibly multi-line).
func (s *Solver) readSexp() string {
	var sb strings.Builder
	depth := 0
	started := false
	for {
		l, err := s.out.ReadString('\n')
		if err != nil {
			return sb.String()
		}
		sb.WriteString(l)
		for _, c := range l {
			if c == '(' {
				depth++
				started = true
			} else if c == ')' {
				depth--
			}
		}
		if started && depth <= 0 {
			return sb.String()
		}
		if !started && strings.TrimSpace(l) != "" {
			return sb.String()
		}
	}
}

func (s *Solver) declareVars(vars map[string]*Term) {
	names := make([]string, 0, len(vars))
	for n := range vars {
		if _, ok := s.declared[n]; !ok {
			names = append(names, n)
		}
	}
	sort.Strings(names)
	for _, n := range names {
		v := vars[n]
		s.declared[n] = v
		d := fmt.Sprintf("(declare-const %s %s)", n, v.S.String())
		s.declLog = append(s.declLog, d)
		s.send(d)
	}
}

func (s *Solver) Push() {
	s.send("(push 1)")
	s.stack = append(s.stack, nil)
}
func (s *Solver) Pop() {
	s.send("(pop 1)")
	s.stack = s.stack[:len(s.stack)-1]
}
func (s *Solver) Level() int { return len(s.stack) - 1 }
func (s *Solver) PopTo(level int) {
	for s.Level() > level {
		s.Pop()
	}
}

func (s *Solver) Assert(t *Term) {
	if t.IsConst() && t.Bool() {
		return
	}
	e, vars := Render(t)
	s.declareVars(vars)
	a := "(assert " + e + ")"
	s.stack[len(s.stack)-1] = append(s.stack[len(s.stack)-1], a)
	s.send(a)
}

func (s *Solver) Check() Verdict {
	t0 := time.Now()
	s.send("(check-sat)")
	var v Verdict
	for {
		l := s.readLine()
		switch {
		case l == "sat":
			v = Sat
			s.Stats.Sat++
		case l == "unsat":
			v = Unsat
			s.Stats.Unsat++
		case l == "unknown" || l == "timeout":
			v = Unknown
			s.Stats.Unknown++
		case strings.HasPrefix(l, "(error"):
			s.lastErr = l
			s.Stats.Errors++
			if strings.Contains(l, "solver died") {
				s.Stats.Unknown++
				s.Stats.Queries++
				s.Stats.Time += time.Since(t0)
				return Unknown
			}
			continue // treat the whole query as inconclusive below
		case l == "" || strings.HasPrefix(l, ";") || strings.HasPrefix(l, "WARNING"):
			continue
		default:
			s.lastErr = "unexpected solver output: " + l
			s.Stats.Errors++
			continue
		}
		break
	}
	s.Stats.Queries++
	s.Stats.Time += time.Since(t0)
	if d := os.Getenv("VERIF_DUMP_SLOW"); d != "" && time.Since(t0) > 2*time.Second {
		s.Stats.Errors += 0
		var sb strings.Builder
		for _, dl := range s.declLog {
			sb.WriteString(dl + "\n")
		}
		for _, lvl := range s.stack {
			for _, a := range lvl {
				sb.WriteString(a + "\n")
			}
		}
		sb.WriteString("(check-sat)\n")
		dumpCounter++
		os.WriteFile(fmt.Sprintf("%s/slow-%d-%d-%s-%.1fs.smt2", d, os.Getpid(), dumpCounter, v, time.Since(t0).Seconds()), []byte(sb.String()), 0o644)
	}
	return v
}

var dumpCounter int

// CheckWith asserts extra in a fresh scope and checks.
func (s *Solver) CheckWith(extra *Term) Verdict {
	errs := s.Stats.Errors
	s.Push()
	s.Assert(extra)
	v := s.Check()
	s.Pop()
	if s.Stats.Errors != errs {
		return Unknown // any (error line makes the query inconclusive
	}
	return v
}

// Model fetches values of the given variables after a sat answer (must be called before pop).
func (s *Solver) Model(vars []*Term) Model {
	m := Model{}
	if len(vars) == 0 {
		return m
	}
	var sb strings.Builder
	sb.WriteString("(get-value (")
	for _, v := range vars {
		sb.WriteString(v.Name)
		sb.WriteString(" ")
	}
	sb.WriteString("))")
	s.send(sb.String())
	resp := s.readSexp()
	// parse pairs (name value)
	toks := tokenize(resp)
	// expected: ( ( name val ) ( name val ) ... )
	i := 0
	if len(toks) == 0 || toks[0] != "(" {
		return m
	}
	i = 1
	for i < len(toks) && toks[i] == "(" {
		name := toks[i+1]
		i += 2
		// value: atom or parenthesised
		var val []string
		if toks[i] == "(" {
			d := 0
			for {
				val = append(val, toks[i])
				if toks[i] == "(" {
					d++
				} else if toks[i] == ")" {
					d--
				}
				i++
				if d == 0 {
					break
				}
			}
		} else {
			val = []string{toks[i]}
			i++
		}
		i++ // closing paren of pair
		m[name] = parseValue(val)
	}
	return m
}

func tokenize(s string) []string {
	var toks []string
	cur := strings.Builder{}
	flush := func() {
		if cur.Len() > 0 {
			toks = append(toks, cur.String())
			cur.Reset()
		}
	}
	for _, c := range s {
		switch c {
		case '(', ')':
			flush()
			toks = append(toks, string(c))
		case ' ', '\n', '\t', '\r':
			flush()
		default:
			cur.WriteRune(c)
		}
	}
	flush()
	return toks
}

func parseValue(v []string) uint64 {
	if len(v) == 1 {
		a := v[0]
		switch {
		case a == "true":
			return 1
		case a == "false":
			return 0
		case strings.HasPrefix(a, "#x"):
			u, _ := strconv.ParseUint(a[2:], 16, 64)
			return u
		case strings.HasPrefix(a, "#b"):
			u, _ := strconv.ParseUint(a[2:], 2, 64)
			return u
		}
		if u, err := strconv.ParseUint(a, 10, 64); err == nil {
			return u
		}
		return 0
	}
	// (_ bvN w)
	if len(v) >= 4 && v[1] == "_" && strings.HasPrefix(v[2], "bv") {
		u, _ := strconv.ParseUint(v[2][2:], 10, 64)
		return u
	}
	return 0
}

// Dump renders the current assertion stack plus an extra assertion as a standalone script.
func (s *Solver) Dump(extra *Term) string {
	var sb strings.Builder
	e, vars := Render(extra)
	s.declareVars(vars)
	for _, d := range s.declLog {
		sb.WriteString(d + "\n")
	}
	for _, lvl := range s.stack {
		for _, a := range lvl {
			sb.WriteString(a + "\n")
		}
	}
	sb.WriteString("(assert " + e + ")\n(check-sat)\n")
	return sb.String()
}

// RunScript runs a standalone script on another solver binary and returns its verdict.
func RunScript(kind string, script string, timeoutMs int) Verdict {
	var argv []string
	pre := ""
	switch kind {
	case "z3":
		argv = []string{"z3", "-in", fmt.Sprintf("-t:%d", timeoutMs)}
	case "z3-new":
		argv = []string{"z3-new", "-in", fmt.Sprintf("-t:%d", timeoutMs)}
	case "cvc5":
		argv = []string{"cvc5", "--lang=smt2", fmt.Sprintf("--tlimit=%d", timeoutMs)}
		pre = "(set-logic ALL)\n"
	case "cvc5-int":
		argv = []string{"cvc5", "--lang=smt2", "--solve-bv-as-int=sum", fmt.Sprintf("--tlimit=%d", timeoutMs)}
		pre = "(set-logic ALL)\n"
	}
	cmd := exec.Command(argv[0], argv[1:]...)
	cmd.Stdin = strings.NewReader(pre + script)
	out, _ := cmd.CombinedOutput()
	txt := string(out)
	if strings.Contains(txt, "(error") {
		return Unknown
	}
	for _, l := range strings.Split(txt, "\n") {
		l = strings.TrimSpace(l)
		if l == "sat" {
			return Sat
		}
		if l == "unsat" {
			return Unsat
		}
	}
	return Unknown
}

// ValueOf returns the value of a BV/Bool term in the current model (after a sat answer).
func (s *Solver) ValueOf(t *Term) (uint64, bool) {
	e, vars := Render(t)
	s.declareVars(vars)
	s.send("(get-value (" + e + "))")
	resp := s.readSexp()
	if strings.Contains(resp, "(error") {
		return 0, false
	}
	toks := tokenize(resp)
	// ( ( <expr...> value ) ) : the value is the last atom or parenthesised group before the final two parens
	if len(toks) < 4 {
		return 0, false
	}
	end := len(toks) - 2
	// value may be an atom or (_ bvN w)
	if toks[end-1] == ")" {
		// find matching open
		d := 0
		i := end - 1
		for ; i >= 0; i-- {
			if toks[i] == ")" {
				d++
			} else if toks[i] == "(" {
				d--
				if d == 0 {
					break
				}
			}
		}
		return parseValue(toks[i:end]), true
	}
	return parseValue(toks[end-1 : end]), true
}

func termHasFP(t *Term, seen map[*Term]bool) bool {
	if seen[t] {
		return false
	}
	seen[t] = true
	if t.S.K == SFP {
		return true
	}
	for _, a := range t.Args {
		if termHasFP(a, seen) {
			return true
		}
	}
	return false
}

// script renders declarations and the whole assertion stack.
func (s *Solver) script() string {
	var sb strings.Builder
	for _, d := range s.declLog {
		sb.WriteString(d + "\n")
	}
	for _, lvl := range s.stack {
		for _, a := range lvl {
			sb.WriteString(a + "\n")
		}
	}
	return sb.String()
}

// Solve decides PC ∧ extra and returns a model of the given variables when sat.
// Bit-vector-only problems go to the incremental process first (fast on small queries) under a short
// timeout; floating-point problems and anything the incremental core does not settle quickly are sent to a
// fresh one-shot process, where z3 applies its full preprocessing/bit-blasting tactic.
func (s *Solver) Solve(extra *Term, vars []*Term) (Verdict, Model) {
	s.Push()
	defer s.Pop()
	if extra != nil {
		s.Assert(extra)
	}
	for _, v := range vars {
		s.declareVars(map[string]*Term{v.Name: v})
	}
	if !s.hasFP() {
		errs := s.Stats.Errors
		v := s.Check()
		if s.Stats.Errors != errs {
			v = Unknown
		}
		if v == Sat {
			return v, s.Model(vars)
		}
		if v == Unsat {
			return v, nil
		}
		s.Stats.Unknown-- // re-decided below
		s.Stats.Queries--
	}
	return s.oneShot(vars)
}

func (s *Solver) hasFP() bool {
	for _, lvl := range s.stack {
		for _, a := range lvl {
			if strings.Contains(a, "fp.") || strings.Contains(a, "to_fp") {
				return true
			}
		}
	}
	return false
}

func (s *Solver) oneShot(vars []*Term) (Verdict, Model) {
	var sb strings.Builder
	sb.WriteString(s.script())
	sb.WriteString("(check-sat)\n")
	if len(vars) > 0 {
		sb.WriteString("(get-value (")
		for _, v := range vars {
			sb.WriteString(v.Name + " ")
		}
		sb.WriteString("))\n")
	}
	return s.oneShotScript(sb.String(), len(vars) > 0)
}

func (s *Solver) oneShotScript(script string, wantModel bool) (Verdict, Model) {
	return s.oneShotScriptWith("z3", script, wantModel)
}

func (s *Solver) oneShotScriptWith(bin string, script string, wantModel bool) (Verdict, Model) {
	t0 := time.Now()
	cmd := exec.Command(bin, "-in", fmt.Sprintf("-t:%d", s.hardTimeout))
	cmd.Stdin = strings.NewReader(script)
	out, _ := cmd.CombinedOutput()
	txt := string(out)
	s.Stats.Queries++
	s.Stats.OneShot++
	s.Stats.Time += time.Since(t0)
	lines := strings.SplitN(txt, "\n", 2)
	first := strings.TrimSpace(lines[0])
	switch first {
	case "unsat":
		s.Stats.Unsat++
		return Unsat, nil
	case "sat":
		s.Stats.Sat++
		m := Model{}
		if wantModel && len(lines) > 1 {
			m = parseModel(lines[1])
		}
		return Sat, m
	}
	if strings.Contains(txt, "(error") {
		s.lastErr = first
		s.Stats.Errors++
	}
	s.Stats.Unknown++
	return Unknown, nil
}

func parseModel(resp string) Model {
	m := Model{}
	toks := tokenize(resp)
	if len(toks) == 0 || toks[0] != "(" {
		return m
	}
	i := 1
	for i < len(toks) && toks[i] == "(" {
		name := toks[i+1]
		i += 2
		var val []string
		if toks[i] == "(" {
			d := 0
			for {
				val = append(val, toks[i])
				if toks[i] == "(" {
					d++
				} else if toks[i] == ")" {
					d--
				}
				i++
				if d == 0 {
					break
				}
			}
		} else {
			val = []string{toks[i]}
			i++
		}
		i++
		m[name] = parseValue(val)
	}
	return m
}

type racer struct {
	name   string
	argv   []string
	script string
	strip  string // suffix to strip from model variable names
}

type raceResult struct {
	v    Verdict
	m    Model
	name string
}

// race runs several solver processes on equivalent scripts and returns the first definite answer.
func (s *Solver) race(rs []racer, wantModel bool, timeout time.Duration) (Verdict, Model, string) {
	t0 := time.Now()
	ctx, cancel := context.WithTimeout(context.Background(), timeout)
	defer cancel()
	ch := make(chan raceResult, len(rs))
	for _, r := range rs {
		go func(r racer) {
			cmd := exec.CommandContext(ctx, r.argv[0], r.argv[1:]...)
			cmd.Stdin = strings.NewReader(r.script)
			out, _ := cmd.CombinedOutput()
			txt := strings.TrimSpace(string(out))
			lines := strings.SplitN(txt, "\n", 2)
			res := raceResult{v: Unknown, name: r.name}
			switch strings.TrimSpace(lines[0]) {
			case "unsat":
				res.v = Unsat
			case "sat":
				res.v = Sat
				res.m = Model{}
				if wantModel && len(lines) > 1 {
					for k, val := range parseModel(lines[1]) {
						res.m[strings.TrimSuffix(k, r.strip)] = val
					}
				}
			}
			if strings.Contains(txt, "(error") && !benignErrors(txt, res.v) {
				res.v = Unknown
			}
			ch <- res
		}(r)
	}
	var out raceResult
	out.v = Unknown
	for i := 0; i < len(rs); i++ {
		r := <-ch
		if r.v != Unknown {
			out = r
			cancel()
			break
		}
	}
	s.Stats.Queries++
	s.Stats.OneShot++
	s.Stats.Time += time.Since(t0)
	switch out.v {
	case Sat:
		s.Stats.Sat++
	case Unsat:
		s.Stats.Unsat++
	default:
		s.Stats.Unknown++
	}
	return out.v, out.m, out.name
}

// bvScript renders the stack (plus declarations for vars) with a get-value request.
func (s *Solver) bvScript(vars []*Term) string {
	var sb strings.Builder
	sb.WriteString(s.script())
	sb.WriteString("(check-sat)\n")
	if len(vars) > 0 {
		sb.WriteString("(get-value (")
		for _, v := range vars {
			sb.WriteString(v.Name + " ")
		}
		sb.WriteString("))\n")
	}
	return sb.String()
}

// benignErrors: after an unsat answer the only acceptable error is the refused get-value.
func benignErrors(txt string, v Verdict) bool {
	if v != Unsat {
		return false
	}
	for _, l := range strings.Split(txt, "\n") {
		if strings.Contains(l, "(error") {
			if !(strings.Contains(l, "model is not available") || strings.Contains(l, "get-value") ||
				strings.Contains(l, "cannot get value") || strings.Contains(l, "Cannot get value")) {
				return false
			}
		}
	}
	return true
}
