package main

import (
	"fmt"
	"go/types"
	"strings"

	"golang.org/x/tools/go/ssa"
)

// Value is one of:
//   *Term                 bool / integer / float
//   *StrV                 string (concrete length, symbolic bytes)
//   *PtrV                 pointer / unsafe.Pointer (concrete target, concrete address)
//   *StructV              struct value (tree of cells)
//   *ArrV                 array value / backing store of a slice
//   *SliceV               slice
//   *IfaceV               interface value (concrete dynamic type)
//   *MapV                 map (nil pointer = nil map)
//   *ChanV                channel
//   *ssa.Function, *ClosureV, *ssa.Builtin, nil-func = (*ClosureV)(nil)
//   TupleV                multi-value
//   *RV                   reflect.Value (model)
//   *RTV                  payload of a reflect.Type interface value
//   *OpaqueV              opaque host object (errors/strings produced by stubs)
type Value interface{}

type Cell struct {
	V  Value
	RO string // non-empty: frozen/shared region label; a store is a violation
}

type StrV struct{ B []*Term }

type PtrV struct {
	P    *Cell
	Addr uint64
	T    types.Type // element type when known (for unsafe re-typing); may be nil
}

type StructV struct {
	F []*Cell
	T *types.Struct
}

type ArrV struct {
	C     []*Cell // lazily materialised up to the largest index touched
	N     *Term   // number of elements (64-bit BV), usually constant
	ElemT types.Type
	Addr  uint64
	ESize int64
	ex    *Exec
	RO    string
}

type SliceV struct {
	Arr      *ArrV // nil => nil slice
	Off      int
	Len, Cap *Term // 64-bit BV terms; usually constants
}

type IfaceV struct {
	T types.Type // nil => nil interface
	V Value
}

type MapEntry struct {
	K Value
	C *Cell
}

type MapV struct {
	E    []*MapEntry
	KT   types.Type
	VT   types.Type
	Addr uint64
	RO   string
	gen  int
}

type ChanV struct {
	Buf  []Value
	Cap  int
	Addr uint64
}

type ClosureV struct {
	Fn  *ssa.Function
	Env []Value
}

type TupleV []Value

type OpaqueV struct {
	Tag string
	S   string
}

// reflect.Value model
type RV struct {
	T       types.Type // nil => the zero (invalid) Value
	P       *Cell      // location holding the value, when the Value is indirect/addressable
	V       Value      // immediate value otherwise
	Addr    uint64     // address of P
	CanAddr bool
	RO      bool // obtained via unexported field
}

type RTV struct{ T types.Type }

func strConst(s string) *StrV {
	b := make([]*Term, len(s))
	for i := 0; i < len(s); i++ {
		b[i] = mkBV(8, uint64(s[i]))
	}
	return &StrV{b}
}

func (s *StrV) Concrete() (string, bool) {
	bs := make([]byte, len(s.B))
	for i, t := range s.B {
		if !t.IsConst() {
			return "", false
		}
		bs[i] = byte(t.C)
	}
	return string(bs), true
}

func (s *StrV) String() string {
	var sb strings.Builder
	for _, t := range s.B {
		if t.IsConst() {
			if t.C >= 32 && t.C < 127 {
				sb.WriteByte(byte(t.C))
			} else {
				fmt.Fprintf(&sb, "\\x%02x", t.C)
			}
		} else {
			sb.WriteString("?")
		}
	}
	return sb.String()
}

func i64(v int64) *Term { return mkBV(64, uint64(v)) }

func constInt(t *Term) (int, bool) {
	if t.IsConst() {
		return int(t.Int64()), true
	}
	return 0, false
}

// cell returns the i-th cell of an array, materialising zero cells on demand.
func (a *ArrV) cell(i int) *Cell {
	for len(a.C) <= i {
		j := len(a.C)
		c := &Cell{RO: a.RO}
		c.V = a.ex.zero(a.ElemT, a.Addr+uint64(int64(j)*a.ESize))
		a.C = append(a.C, c)
	}
	return a.C[i]
}

func describe(v Value) string {
	switch x := v.(type) {
	case nil:
		return "<nil>"
	case *Term:
		if x.IsConst() {
			switch x.S.K {
			case SBool:
				return fmt.Sprint(x.Bool())
			case SBV:
				return fmt.Sprintf("%d", x.Int64())
			default:
				return fmt.Sprint(x.F64())
			}
		}
		return "<sym " + x.S.String() + ">"
	case *StrV:
		return "\"" + x.String() + "\""
	case *PtrV:
		if x.P == nil {
			return "nilptr"
		}
		return fmt.Sprintf("ptr@%x", x.Addr)
	case *StructV:
		var sb strings.Builder
		sb.WriteString("{")
		for i, c := range x.F {
			if i > 0 {
				sb.WriteString(" ")
			}
			sb.WriteString(describe(c.V))
		}
		sb.WriteString("}")
		return sb.String()
	case *SliceV:
		if x.Arr == nil {
			return "nilslice"
		}
		n, ok := constInt(x.Len)
		if !ok {
			return "slice[symlen]"
		}
		var sb strings.Builder
		sb.WriteString("[")
		for i := 0; i < n && i < 40; i++ {
			if i > 0 {
				sb.WriteString(" ")
			}
			sb.WriteString(describe(x.Arr.cell(x.Off + i).V))
		}
		if n > 40 {
			sb.WriteString(" ...")
		}
		sb.WriteString("]")
		return sb.String()
	case *IfaceV:
		if x.T == nil {
			return "nil-iface"
		}
		return "iface(" + x.T.String() + ":" + describe(x.V) + ")"
	case *MapV:
		if x == nil {
			return "nilmap"
		}
		return fmt.Sprintf("map[%d]", len(x.E))
	case *RV:
		if x.T == nil {
			return "RV(invalid)"
		}
		return "RV(" + x.T.String() + ")"
	case *RTV:
		return "RT(" + x.T.String() + ")"
	case TupleV:
		var sb strings.Builder
		sb.WriteString("(")
		for i, e := range x {
			if i > 0 {
				sb.WriteString(", ")
			}
			sb.WriteString(describe(e))
		}
		sb.WriteString(")")
		return sb.String()
	case *OpaqueV:
		return "opaque(" + x.Tag + ")"
	}
	return fmt.Sprintf("%T", v)
}
