package main

import (
	"bufio"
	"encoding/json"
	"flag"
	"fmt"
	"os"
	"os/exec"
	"path/filepath"
	"runtime"
	"sort"
	"strconv"
	"strings"
	"time"
)

type PropMeta struct {
	ID            string   `json:"id"`
	Bounds        []string `json:"bounds"`
	BoundsThorough []string `json:"bounds_thorough"`
	Outside       []string `json:"outside_bounds"`
	Assumptions   []string `json:"assumptions"`
	Rule          string   `json:"rule"`
	QuickWallS    int      `json:"quick_wall_s"`
	ThoroughWallS int      `json:"thorough_wall_s"`
	StepBudget    int      `json:"step_budget"`
	MaxPaths      int      `json:"max_paths"`
	FixedMapOrder bool     `json:"fixed_map_order"`
}

func loadProps(path string) map[string]*PropMeta {
	out := map[string]*PropMeta{}
	b, err := os.ReadFile(path)
	if err != nil {
		return out
	}
	var list []*PropMeta
	if err := json.Unmarshal(b, &list); err != nil {
		fmt.Fprintln(os.Stderr, "props.json:", err)
		return out
	}
	for _, p := range list {
		out[p.ID] = p
	}
	return out
}

func loadFindings(path string) []Finding {
	var out []Finding
	f, err := os.Open(path)
	if err != nil {
		return out
	}
	defer f.Close()
	sc := bufio.NewScanner(f)
	sc.Buffer(make([]byte, 1<<20), 1<<20)
	for sc.Scan() {
		l := strings.TrimSpace(sc.Text())
		if l == "" || strings.HasPrefix(l, "#") {
			continue
		}
		var fd Finding
		if err := json.Unmarshal([]byte(l), &fd); err == nil {
			out = append(out, fd)
		}
	}
	return out
}

func verifRoot() string {
	if r := os.Getenv("VERIF_ROOT"); r != "" {
		return r
	}
	exe, err := os.Executable()
	if err == nil {
		d := filepath.Dir(exe)
		if _, err := os.Stat(filepath.Join(d, "harness")); err == nil {
			return d
		}
		if _, err := os.Stat(filepath.Join(d, "..", "harness")); err == nil {
			return filepath.Clean(filepath.Join(d, ".."))
		}
	}
	return "/verif"
}

func main() {
	if len(os.Args) < 2 {
		fmt.Fprintln(os.Stderr, "usage: gosym check <PROP> [--tier quick|thorough] | run <harness> | replay <file> | selftest")
		os.Exit(2)
	}
	cmd := os.Args[1]
	fs := flag.NewFlagSet(cmd, flag.ExitOnError)
	tier := fs.String("tier", envOr("VERIF_TIER", "quick"), "quick|thorough")
	repo := fs.String("repo", envOr("VERIF_REPO", "/repo"), "repository under test")
	only := fs.String("harness", "", "only this harness (debug)")
	verbose := fs.Bool("v", false, "verbose")
	workers := fs.Int("j", runtime.NumCPU(), "workers")
	mode := fs.String("mode", "", "known-finding mode (debug)")
	maxViol := fs.Int("maxviol", 3, "stop a harness after this many violations")
	var pos []string
	args := os.Args[2:]
	for len(args) > 0 {
		if strings.HasPrefix(args[0], "-") {
			break
		}
		pos = append(pos, args[0])
		args = args[1:]
	}
	fs.Parse(args)
	pos = append(pos, fs.Args()...)
	root := verifRoot()
	seed, _ := strconv.Atoi(os.Getenv("VERIF_SEED"))

	switch cmd {
	case "check":
		if len(pos) != 1 {
			fmt.Fprintln(os.Stderr, "check needs a property id")
			os.Exit(2)
		}
		os.Exit(runCheck(root, *repo, pos[0], *tier, *only, *workers, *verbose, seed))
	case "run":
		w := mustLoad(root, *repo, *tier, *workers, *verbose)
		w.stepBudget = 5_000_000
		w.maxViol = *maxViol
		for _, h := range pos {
			r := w.runHarness(h, *mode, time.Hour)
			printResult(r)
		}
	case "selftest":
		os.Exit(runSelftest(root, *repo, *workers, *verbose))
	case "replay":
		if len(pos) != 1 {
			fmt.Fprintln(os.Stderr, "replay needs a file")
			os.Exit(2)
		}
		rp := newReplayer(root, *repo)
		defer rp.cleanup()
		out, err := rp.run(pos[0], 120*time.Second)
		fmt.Println("REPLAY-OUTCOME", out)
		if err != nil {
			fmt.Println(err)
		}
		if strings.HasPrefix(out, "ok") {
			os.Exit(0)
		}
		os.Exit(1)
	default:
		fmt.Fprintln(os.Stderr, "unknown command", cmd)
		os.Exit(2)
	}
}

func envOr(k, d string) string {
	if v := os.Getenv(k); v != "" {
		return v
	}
	return d
}

func mustLoad(root, repo, tier string, workers int, verbose bool) *World {
	w, err := loadWorld(repo, filepath.Join(root, "harness"))
	if err != nil {
		fmt.Fprintln(os.Stderr, "INCONCLUSIVE: cannot load /repo with harness overlay:", err)
		os.Exit(3)
	}
	w.tier = tier
	w.workers = workers
	w.verbose = verbose
	// generous per-query limits: nearly every query answers in milliseconds, and a loaded machine must not turn a
	// slow answer into an INCONCLUSIVE run
	w.timeoutMs = 60000
	if tier == "thorough" {
		w.timeoutMs = 120000
		w.crossCheck = true
		w.crossBudget = 40
	}
	w.stepBudget = 2_000_000
	w.findings = loadFindings(filepath.Join(root, "known_findings.jsonl"))
	w.workDir = filepath.Join(root, ".work")
	return w
}

func printResult(r *HarnessResult) {
	fmt.Printf("harness %s mode=%q paths=%d kinds=%v asserts=%d (symbolic %d) maxsteps=%d queries=%d (sat %d unsat %d unknown %d) solver=%.2fs wall=%.2fs\n",
		r.Name, r.Mode, r.Paths, r.Kinds, r.Asserts, r.AssertSym, r.MaxSteps, r.Solver.Queries, r.Solver.Sat, r.Solver.Unsat, r.Solver.Unknown,
		r.Solver.Time.Seconds(), r.Wall.Seconds())
	for k, n := range r.Unsupported {
		fmt.Printf("  UNSUPPORTED x%d: %s\n", n, k)
	}
	for _, u := range r.Unknowns {
		fmt.Printf("  UNKNOWN: %s\n", u)
	}
	for _, b := range r.Budget {
		fmt.Printf("  BUDGET: %s\n", b)
	}
	if r.Incomplete != "" {
		fmt.Printf("  INCOMPLETE: %s\n", r.Incomplete)
	}
	for _, v := range r.Violations {
		fmt.Printf("  violation %s: %s\n", v.Assert, v.Msg)
		for _, in := range v.Inputs {
			fmt.Printf("     %s %s = %v\n", in.Name, in.Kind, fmtVals(in.Val))
		}
		for _, t := range v.Trace {
			fmt.Println("     |", t)
		}
	}
}

func fmtVals(v []uint64) string {
	var s []string
	for _, x := range v {
		s = append(s, fmt.Sprintf("0x%x", x))
	}
	return "[" + strings.Join(s, " ") + "]"
}

// ---------- check ----------

func runCheck(root, repo, prop, tier, only string, workers int, verbose bool, seed int) int {
	t0 := time.Now()
	props := loadProps(filepath.Join(root, "props.json"))
	meta := props[prop]
	if meta == nil {
		meta = &PropMeta{ID: prop}
	}
	w := mustLoad(root, repo, tier, workers, verbose)
	if meta.StepBudget > 0 {
		w.stepBudget = meta.StepBudget
	}
	w.maxPaths = meta.MaxPaths
	w.fixedMapOrder = meta.FixedMapOrder
	wall := time.Duration(meta.QuickWallS) * time.Second
	if tier == "thorough" {
		wall = time.Duration(meta.ThoroughWallS) * time.Second
	}
	if wall == 0 {
		wall = 10 * time.Minute
	}
	hs := w.harnesses("H_" + prop + "_")
	if only != "" {
		hs = []string{only}
	}
	if len(hs) == 0 {
		fmt.Printf("INCONCLUSIVE property=%s no harness found\n", prop)
		return 3
	}
	rp := newReplayer(root, repo)
	defer rp.cleanup()

	exit := 0
	inconclusive := []string{}
	var results []*HarnessResult
	violations := 0
	knownRepro := []string{}
	replays := 0
	tierIdx := 0
	if tier == "thorough" {
		tierIdx = 1
	}
	_ = tierIdx
	nrep := 0
	for _, h := range hs {
		r := w.runHarness(h, "", wall)
		results = append(results, r)
		if verbose {
			printResult(r)
		}
		for k, n := range r.Unsupported {
			inconclusive = append(inconclusive, fmt.Sprintf("%s: unsupported x%d: %s", h, n, k))
		}
		for _, u := range r.Unknowns {
			inconclusive = append(inconclusive, "solver unknown: "+u)
		}
		for _, b := range r.Budget {
			inconclusive = append(inconclusive, h+": unwinding/step budget: "+b)
		}
		if r.Incomplete != "" {
			inconclusive = append(inconclusive, h+": "+r.Incomplete)
		}
		if r.Witness == 0 && len(r.Violations) == 0 {
			inconclusive = append(inconclusive, h+": vacuous (no path reached an assertion and completed)")
		}
		for _, v := range r.Violations {
			nrep++
			path := filepath.Join(root, "replays", prop, fmt.Sprintf("%s-%d.json", h, nrep))
			rf := ReplayFile{Property: prop, Harness: h, Assert: v.Assert, Msg: v.Msg, Tier: tier, Inputs: v.Inputs}
			writeJSON(path, rf)
			rt := 180 * time.Second
			if v.Assert == "noblock" || v.Assert == "step-bound" {
				rt = 20 * time.Second
			}
			out, err := rp.run(path, rt)
			replays++
			if confirms(out, v.Assert) {
				fmt.Printf("VIOLATION property=%s replay=%s\n", prop, path)
				fmt.Printf("  harness=%s assertion=%s: %s (native replay: %s)\n", h, v.Assert, v.Msg, out)
				violations++
				exit = 1
			} else {
				msg := fmt.Sprintf("%s/%s: counterexample did not reproduce natively (native: %s %v) -> SPURIOUS, engine/model suspect; replay kept at %s", h, v.Assert, out, err, path)
				inconclusive = append(inconclusive, msg)
			}
		}
	}
	// known findings: reproduce inside their regions
	for _, f := range w.findings {
		if f.Property != prop || f.Status != "open" {
			continue
		}
		reproduced := false
		for _, h := range hs {
			if len(f.Harnesses) > 0 && !contains(f.Harnesses, h) {
				continue
			}
			r := w.runHarness(h, f.ID, wall)
			results = append(results, r)
			for _, v := range r.Violations {
				nrep++
				path := filepath.Join(root, "replays", prop, fmt.Sprintf("known-%s-%s-%d.json", f.ID, h, nrep))
				rf := ReplayFile{Property: prop, Harness: h, Assert: v.Assert, Msg: v.Msg, Tier: tier, Known: f.ID, Inputs: v.Inputs}
				writeJSON(path, rf)
				out, _ := rp.run(path, 180*time.Second)
				replays++
				if confirms(out, v.Assert) {
					reproduced = true
					break
				}
			}
			if reproduced {
				break
			}
		}
		if reproduced {
			fmt.Printf("KNOWN-FINDING: property=%s %s [%s]\n", prop, f.What, f.ID)
			knownRepro = append(knownRepro, f.ID)
		}
	}
	for _, d := range w.crossDisagree {
		inconclusive = append(inconclusive, "solver disagreement: "+d)
	}
	if exit == 0 && len(inconclusive) > 0 {
		exit = 3
	}
	for _, m := range inconclusive {
		fmt.Printf("INCONCLUSIVE property=%s %s\n", prop, m)
	}
	writeEvidence(root, prop, tier, seed, meta, w, results, violations, knownRepro, inconclusive, replays, time.Since(t0))
	if exit == 0 {
		tot := 0
		q := 0
		for _, r := range results {
			tot += r.Paths
			q += r.Solver.Queries
		}
		fmt.Printf("OK property=%s tier=%s harnesses=%d paths=%d solver_queries=%d wall=%.1fs\n", prop, tier, len(hs), tot, q, time.Since(t0).Seconds())
	}
	return exit
}

func contains(l []string, s string) bool {
	for _, x := range l {
		if x == s {
			return true
		}
	}
	return false
}

// confirms: does the native outcome confirm the engine's verdict for assertion id?
func confirms(out string, assert string) bool {
	switch {
	case strings.HasPrefix(out, "violated:"):
		return true
	case strings.HasPrefix(out, "panic:"):
		return true
	case strings.HasPrefix(out, "timeout"), strings.HasPrefix(out, "crash"):
		return assert == "step-bound" || assert == "alloc-bound" || assert == "alloc-unbounded" || assert == "nopanic" || assert == "noblock"
	}
	return false
}

func writeEvidence(root, prop, tier string, seed int, meta *PropMeta, w *World, results []*HarnessResult, violations int,
	known []string, inconclusive []string, replays int, wall time.Duration) {
	funcs := map[string]bool{}
	intr := map[string]bool{}
	var paths, symPaths, asserts, assertSym, sat, unsat, unknown, queries, witness int
	var solverS float64
	kinds := map[string]int{}
	var samples []map[string]interface{}
	perH := []map[string]interface{}{}
	for _, r := range results {
		for k := range r.Funcs {
			funcs[k] = true
		}
		for k := range r.Intr {
			intr[k] = true
		}
		paths += r.Paths
		symPaths += r.SymPaths
		asserts += r.Asserts
		assertSym += r.AssertSym
		sat += r.Solver.Sat
		unsat += r.Solver.Unsat
		unknown += r.Solver.Unknown
		queries += r.Solver.Queries
		solverS += r.Solver.Time.Seconds()
		witness += r.Witness
		for k, n := range r.Kinds {
			kinds[k] += n
		}
		if len(samples) < 8 {
			samples = append(samples, r.Samples...)
		}
		perH = append(perH, map[string]interface{}{"harness": r.Name, "mode": r.Mode, "paths": r.Paths, "path_ends": r.Kinds,
			"assertions_discharged": r.Asserts, "assertions_solver_decided": r.AssertSym, "queries": r.Solver.Queries,
			"solver_s": round2(r.Solver.Time.Seconds()), "wall_s": round2(r.Wall.Seconds()), "max_steps": r.MaxSteps})
	}
	if len(samples) == 0 {
		samples = append(samples, map[string]interface{}{"note": "no path reached an assertion"})
	}
	var repoFuncs, stdFuncs []string
	for _, f := range sortedKeys(funcs) {
		if strings.Contains(f, "github.com/vogo/gohessian") {
			if !strings.Contains(f, ".H_") && !strings.Contains(f, ".v") {
				repoFuncs = append(repoFuncs, f)
			}
		} else {
			stdFuncs = append(stdFuncs, f)
		}
	}
	bounds := meta.Bounds
	if tier == "thorough" && len(meta.BoundsThorough) > 0 {
		bounds = meta.BoundsThorough
	}
	rule := meta.Rule
	if rule == "" {
		rule = "evaluations = assertion instances discharged (each is one solver query PC∧¬assert, or a concrete evaluation when the path condition fixed all inputs); distinct_nontrivial = distinct feasible paths (distinct decision trails, solver-checked feasible) that reached at least one assertion with a symbolic path condition or symbolic assertion"
	}
	assumptions := append([]string{
		"bounded symbolic execution of go/ssa of /repo's working tree (regenerated each run); verdicts hold only within the stated bounds",
		"reflect is a model over go/types (see DESIGN.md §3), validated by native replay of every counterexample and the selftest differential",
		"fmt formatting, runtime.Caller, the logger and time.Now are stubbed; strings helpers are computed natively on concretised arguments",
		"amd64 semantics for float->int conversion; NaN payloads of computed NaNs unspecified",
		"solver: z3 4.8.12 (incremental, push/pop); unknown/error answers are reported INCONCLUSIVE, never as success",
	}, meta.Assumptions...)
	ev := map[string]interface{}{
		"property_id": prop,
		"tier":        tier,
		"seed":        seed,
		"level":       "model_checking",
		"wall_s":      round2(wall.Seconds()),
		"violations":  violations,
		"assumptions": assumptions,
		"coverage": map[string]interface{}{
			"evaluations":               asserts,
			"distinct_nontrivial":       symPaths,
			"rule":                      rule,
			"samples":                   samples,
			"exhaustive":                false,
			"technique":                 "bounded symbolic execution of the real go/ssa with an SMT solver (z3) deciding every branch feasibility and every assertion",
			"functions_encoded":         repoFuncs,
			"stdlib_functions_executed": stdFuncs,
			"intrinsics_used":           sortedKeys(intr),
			"bounds":                    bounds,
			"outside_bounds":            meta.Outside,
			"paths":                     paths,
			"path_ends":                 kinds,
			"assertions_solver_decided": assertSym,
			"queries":                   map[string]int{"total": queries, "sat": sat, "unsat": unsat, "unknown": unknown},
			"solver_s":                  round2(solverS),
			"crosschecked":              w.crossDone,
			"crosscheck_disagreements":  len(w.crossDisagree),
			"vacuity_witnesses":         witness,
			"replays_run":               replays,
			"known_findings_reproduced": known,
			"inconclusive":              inconclusive,
			"per_harness":               perH,
			"load_s":                    round2(w.loadTime.Seconds()),
			"translator_selftest":       readSelftest(root),
		},
	}
	path := filepath.Join(root, "evidence", prop+".json")
	if err := writeJSON(path, ev); err != nil {
		fmt.Fprintln(os.Stderr, "evidence:", err)
	}
}

func round2(f float64) float64 { return float64(int(f*100+0.5)) / 100 }

// ---------- native replay ----------

type replayer struct {
	root, repo string
	dir        string
	bin        string
	built      bool
	buildErr   error
}

func newReplayer(root, repo string) *replayer {
	return &replayer{root: root, repo: repo}
}

func (r *replayer) cleanup() {
	if r.dir != "" {
		os.RemoveAll(r.dir)
	}
}

func (r *replayer) build() error {
	if r.built {
		return r.buildErr
	}
	r.built = true
	dir, err := os.MkdirTemp(filepath.Join(r.root, ".work"), "replay")
	if err != nil {
		os.MkdirAll(filepath.Join(r.root, ".work"), 0o755)
		dir, err = os.MkdirTemp(filepath.Join(r.root, ".work"), "replay")
		if err != nil {
			r.buildErr = err
			return err
		}
	}
	r.dir = dir
	ov := map[string]string{}
	files, _ := filepath.Glob(filepath.Join(r.root, "harness", "*.go"))
	var hnames []string
	for _, f := range files {
		ov[filepath.Join(r.repo, "zz_verif_"+filepath.Base(f))] = f
		b, _ := os.ReadFile(f)
		for _, l := range strings.Split(string(b), "\n") {
			if strings.HasPrefix(l, "func H_") {
				n := strings.TrimPrefix(l, "func ")
				if i := strings.Index(n, "("); i > 0 {
					hnames = append(hnames, n[:i])
				}
			}
		}
	}
	sort.Strings(hnames)
	var sb strings.Builder
	sb.WriteString("//go:build verif\n\npackage hessian\n\nfunc init() {\n")
	for _, h := range hnames {
		fmt.Fprintf(&sb, "\tvHarnesses[%q] = %s\n", h, h)
	}
	sb.WriteString("}\n")
	reg := filepath.Join(dir, "registry.go")
	os.WriteFile(reg, []byte(sb.String()), 0o644)
	ov[filepath.Join(r.repo, "zz_verif_registry.go")] = reg
	ovb, _ := json.Marshal(map[string]interface{}{"Replace": ov})
	ovf := filepath.Join(dir, "overlay.json")
	os.WriteFile(ovf, ovb, 0o644)
	r.bin = filepath.Join(dir, "replay.test")
	cmd := exec.Command("go", "test", "-tags", "verif", "-vet=off", "-overlay", ovf, "-c", "-o", r.bin, ".")
	cmd.Dir = r.repo
	cmd.Env = append(os.Environ(), "GOFLAGS=-mod=mod", "GOPROXY=off", "GOSUMDB=off", "GOTOOLCHAIN=local")
	out, err := cmd.CombinedOutput()
	if err != nil {
		r.buildErr = fmt.Errorf("native replay build failed: %v\n%s", err, out)
	}
	return r.buildErr
}

func (r *replayer) run(path string, timeout time.Duration) (string, error) {
	if err := r.build(); err != nil {
		return "build-failed", err
	}
	abs, _ := filepath.Abs(path)
	cmd := exec.Command("/bin/sh", "-c", fmt.Sprintf("ulimit -v 8000000; exec %s -test.run '^TestVerifReplay$' -test.count=1 -test.timeout=%ds", r.bin, int(timeout.Seconds())))
	cmd.Dir = r.repo
	cmd.Env = append(os.Environ(), "VERIF_REPLAY="+abs)
	done := make(chan struct{})
	var out []byte
	var err error
	go func() {
		out, err = cmd.CombinedOutput()
		close(done)
	}()
	select {
	case <-done:
	case <-time.After(timeout + 10*time.Second):
		cmd.Process.Kill()
		<-done
		return "timeout", nil
	}
	txt := string(out)
	for _, l := range strings.Split(txt, "\n") {
		if i := strings.Index(l, "REPLAY-RESULT "); i >= 0 {
			return strings.TrimSpace(l[i+len("REPLAY-RESULT "):]), nil
		}
	}
	if strings.Contains(txt, "test timed out") {
		return "timeout", nil
	}
	if err != nil {
		tail := txt
		if len(tail) > 400 {
			tail = tail[:400]
		}
		return "crash: " + strings.ReplaceAll(tail, "\n", " | "), nil
	}
	return "no-result", fmt.Errorf("no REPLAY-RESULT line in output: %s", txt)
}

// runSelftest: translator validation. The harness H_ST_records pushes the repository's own test values through
// the codec; the byte strings recorded under the symbolic executor must equal those recorded natively.
func runSelftest(root, repo string, workers int, verbose bool) int {
	w := mustLoad(root, repo, "quick", workers, verbose)
	w.stepBudget = 50_000_000
	w.fixedMapOrder = false
	r := w.runHarness("H_ST_records", "", 10*time.Minute)
	if len(r.Unsupported) > 0 || len(r.Violations) > 0 || r.Kinds["done"] != 1 {
		printResult(r)
		fmt.Println("SELFTEST FAILED: the engine could not execute the self-test harness")
		return 3
	}
	rp := newReplayer(root, repo)
	defer rp.cleanup()
	if err := rp.build(); err != nil {
		fmt.Println("SELFTEST FAILED:", err)
		return 3
	}
	path := filepath.Join(root, ".work", "selftest-input.json")
	writeJSON(path, ReplayFile{Property: "selftest", Harness: "H_ST_records", Tier: "quick"})
	cmd := exec.Command(rp.bin, "-test.run", "^TestVerifReplay$", "-test.count=1")
	cmd.Dir = repo
	cmd.Env = append(os.Environ(), "VERIF_REPLAY="+path)
	out, _ := cmd.CombinedOutput()
	native := map[string]string{}
	var order []string
	for _, l := range strings.Split(string(out), "\n") {
		if strings.HasPrefix(l, "REPLAY-RECORD ") {
			f := strings.SplitN(strings.TrimPrefix(l, "REPLAY-RECORD "), " ", 2)
			v := ""
			if len(f) > 1 {
				v = f[1]
			}
			native[f[0]] = v
			order = append(order, f[0])
		}
	}
	engine := map[string]string{}
	for _, l := range r.Records {
		f := strings.SplitN(l, " ", 2)
		v := ""
		if len(f) > 1 {
			v = f[1]
		}
		engine[f[0]] = v
	}
	bad := 0
	for _, k := range order {
		if e, ok := engine[k]; !ok || e != native[k] {
			bad++
			if bad <= 10 {
				fmt.Printf("SELFTEST MISMATCH %s\n  native: %.200s\n  engine: %.200s\n", k, native[k], e)
			}
		}
	}
	if len(order) == 0 || len(engine) != len(native) {
		fmt.Printf("SELFTEST FAILED: %d native records, %d engine records\n", len(native), len(engine))
		return 3
	}
	if bad > 0 {
		fmt.Printf("SELFTEST FAILED: %d of %d records differ between the symbolic executor and the native build\n", bad, len(order))
		return 3
	}
	fmt.Printf("SELFTEST OK: %d records identical under the symbolic executor and the native build (%d interpreted steps)\n", len(order), r.MaxSteps)
	writeJSON(filepath.Join(root, ".work", "selftest.json"), map[string]interface{}{"records": len(order), "steps": r.MaxSteps, "ok": true})
	return 0
}

func readSelftest(root string) interface{} {
	b, err := os.ReadFile(filepath.Join(root, ".work", "selftest.json"))
	if err != nil {
		return "not run in this work directory (./verif selftest)"
	}
	var v interface{}
	if json.Unmarshal(b, &v) != nil {
		return "unreadable"
	}
	return v
}
