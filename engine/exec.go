package main

import (
	"fmt"
	"go/constant"
	"go/token"
	"go/types"
	"os"
	"sort"
	"strings"
	"time"

	"golang.org/x/tools/go/ssa"
)

// pathEnd unwinds the Go stack when a path is over.
type pathEnd struct {
	kind string // "assume", "violation", "budget", "unsupported", "blocked"
	msg  string
}

// goPanic is an interpreted Go panic.
type goPanic struct {
	v   Value
	msg string
}

type Decision struct {
	Kind    byte // 'b' branch, 'c' choice, 'v' value pick (a branch on t==Val)
	Taken   bool
	AltOpen bool
	Val     uint64
	Choice  int
	N       int
	Frozen  bool // part of a donated prefix: never flipped by this worker
	Unchecked bool // flipped alternative whose feasibility has not been checked yet
	M       Model  // a model of the path condition just before this decision (immutable snapshot)
	AltM    Model  // a model of the path condition plus the alternative side (when AltChecked)
	AltChecked bool
	Where   string
}

type InputRec struct {
	Name string  `json:"name"`
	Kind string  `json:"kind"` // "bv8".."bv64","bool","choice"
	Term []*Term `json:"-"`
	Val  []uint64 `json:"val"`
}

type Violation struct {
	Harness string
	Assert  string
	Msg     string
	Inputs  []InputRec
	Known   string // known-finding id active for this run ("" = none)
	Trace   []string
}

type Exec struct {
	prog   *ssa.Program
	hpkg   *ssa.Package
	sizes  types.Sizes
	solver *Solver
	W      *World

	// per-path state
	globals    map[*ssa.Global]*Cell
	syncMaps   map[*Cell]*MapV // contents of sync.Map values, by the cell holding the sync.Map struct
	onceDone   map[*Cell]bool  // sync.Once values whose Do has run
	pc         []*Term
	trail      []*Decision
	pos        int
	inputs     []*InputRec
	nameCount  map[string]int
	steps      int
	budget     int
	nextAddr   uint64
	depth      int
	maxDepth   int
	initDone   map[*ssa.Package]bool
	allocBound int64 // >0: any allocation whose element count can exceed it is a violation
	knownMode  string
	curHarness string
	trace      []string
	tracing    bool
	pathSym    bool // path touched at least one symbolic branch/assert
	funcsSeen  map[string]bool
	intrSeen   map[string]bool
	assumes    map[string]bool
	writes     int // io.Writer call counter for fault harnesses

	// results of the current path
	violation *Violation
	asserts   int // assertions discharged on this path
	assertSym int // ... with a symbolic condition (solver-decided)
	unknowns  []string

	model      Model
	failModel  Model
	arithInt   bool
	rcache     map[*Term]*rendered
	startModel Model
	prunedAlts int
	fixOrder   bool
	fixDepth   int
	records    []string
	intSolved  int
	modelStale bool
	gaddr      map[*ssa.Global]uint64
	curFrame   *frame
	panicStack []*frame
	callStack  []string
	stepLimit  int
	globalsFrozen string
}

type frame struct {
	fn        *ssa.Function
	env       map[ssa.Value]Value
	block     *ssa.BasicBlock
	prev      *ssa.BasicBlock
	defers    []func()
	panicking bool
	panicVal  *goPanic
	result    Value
	caller    *frame
}

const zeroBase = 0x5a0000

var stepLog = os.Getenv("VERIF_STEPLOG") != ""

func (ex *Exec) resetPath() {
	ex.globals = map[*ssa.Global]*Cell{}
	ex.pc = nil
	ex.pos = 0
	ex.inputs = nil
	ex.nameCount = map[string]int{}
	ex.steps = 0
	ex.nextAddr = 0xc000010000
	ex.depth = 0
	ex.initDone = map[*ssa.Package]bool{}
	ex.allocBound = 0
	ex.violation = nil
	ex.asserts = 0
	ex.assertSym = 0
	ex.trace = nil
	ex.pathSym = false
	ex.writes = 0
	ex.model = ex.startModel
	if ex.model == nil {
		ex.model = Model{}
	}
	ex.modelStale = false
	ex.rcache = map[*Term]*rendered{}
	ex.gaddr = nil
	ex.curFrame = nil
	ex.unknowns = nil
	ex.panicStack = nil
	ex.callStack = nil
	ex.stepLimit = 0
	ex.fixOrder = false
	ex.fixDepth = 0
	ex.records = nil
	ex.arithInt = false
	ex.globalsFrozen = ""
	ex.tracing = false
}

func (ex *Exec) alloc(size int64) uint64 {
	if size == 0 {
		return zeroBase
	}
	a := ex.nextAddr
	sz := (uint64(size) + 15) &^ 15
	ex.nextAddr += sz
	return a
}

func (ex *Exec) unsupported(format string, a ...interface{}) {
	st := ""
	for i := len(ex.callStack) - 1; i >= 0 && i >= len(ex.callStack)-6; i-- {
		st += " <- " + ex.callStack[i]
	}
	panic(pathEnd{"unsupported", fmt.Sprintf(format, a...) + " [in" + st + "]"})
}

func (ex *Exec) gopanic(msg string) {
	where := ""
	if n := len(ex.callStack); n > 0 {
		where = " [in " + ex.callStack[n-1]
		if n > 1 {
			where += " <- " + ex.callStack[n-2]
		}
		where += "]"
	}
	panic(&goPanic{v: ex.panicValue(msg), msg: msg + where})
}

// panicValue: the value a recover() sees. Panics raised by the Go runtime itself (bounds, nil dereference, failed
// type assertion, unhashable key, nil map) implement runtime.Error; code under test may tell them from other panics
// (`r.(runtime.Error)`), so they carry the runtime's own string-kinded error types. Panics of the reflect model
// carry plain strings, as most of reflect's do.
func (ex *Exec) panicValue(msg string) *IfaceV {
	if rp := ex.prog.ImportedPackage("runtime"); rp != nil {
		if rest := strings.TrimPrefix(msg, "runtime error: "); rest != msg {
			if t := rp.Type("errorString"); t != nil {
				return &IfaceV{T: t.Type(), V: strConst(rest)}
			}
		}
		for _, pre := range []string{"interface conversion:", "assignment to entry in nil map", "value method called using nil pointer"} {
			if strings.HasPrefix(msg, pre) {
				if t := rp.Type("plainError"); t != nil {
					return &IfaceV{T: t.Type(), V: strConst(msg)}
				}
			}
		}
	}
	return &IfaceV{T: types.Typ[types.String], V: strConst(msg)}
}

// ---------- types ----------

func under(t types.Type) types.Type {
	if t == nil {
		return nil
	}
	return t.Underlying()
}

func isReflectValue(t types.Type) bool {
	if n, ok := t.(*types.Named); ok {
		o := n.Obj()
		return o.Pkg() != nil && o.Pkg().Path() == "reflect" && o.Name() == "Value"
	}
	return false
}

func bvWidth(t types.Type) int {
	switch b := under(t).(type) {
	case *types.Basic:
		switch b.Kind() {
		case types.Int8, types.Uint8:
			return 8
		case types.Int16, types.Uint16:
			return 16
		case types.Int32, types.Uint32:
			return 32
		case types.Int, types.Uint, types.Int64, types.Uint64, types.Uintptr, types.UntypedInt, types.UntypedRune:
			return 64
		}
	}
	return 0
}

func isSigned(t types.Type) bool {
	if b, ok := under(t).(*types.Basic); ok {
		return b.Info()&types.IsInteger != 0 && b.Info()&types.IsUnsigned == 0
	}
	return false
}
func isInteger(t types.Type) bool {
	if b, ok := under(t).(*types.Basic); ok {
		return b.Info()&types.IsInteger != 0
	}
	return false
}
func isFloat(t types.Type) bool {
	if b, ok := under(t).(*types.Basic); ok {
		return b.Info()&types.IsFloat != 0
	}
	return false
}
func floatWidth(t types.Type) int {
	if b, ok := under(t).(*types.Basic); ok && b.Kind() == types.Float32 {
		return 32
	}
	return 64
}
func isString(t types.Type) bool {
	if b, ok := under(t).(*types.Basic); ok {
		return b.Info()&types.IsString != 0
	}
	return false
}
func isBool(t types.Type) bool {
	if b, ok := under(t).(*types.Basic); ok {
		return b.Info()&types.IsBoolean != 0
	}
	return false
}

func (ex *Exec) sizeof(t types.Type) int64 {
	defer func() { recover() }()
	return ex.sizes.Sizeof(t)
}

// zero builds the zero value of t; addr is the address the value will live at (0 if unknown).
func (ex *Exec) zero(t types.Type, addr uint64) Value {
	if isReflectValue(t) {
		return &RV{}
	}
	switch u := under(t).(type) {
	case *types.Basic:
		switch {
		case u.Info()&types.IsBoolean != 0:
			return falseT
		case u.Info()&types.IsInteger != 0:
			return mkBV(bvWidth(u), 0)
		case u.Info()&types.IsFloat != 0:
			return fconst(floatWidth(u), 0)
		case u.Info()&types.IsString != 0:
			return &StrV{}
		case u.Kind() == types.UnsafePointer:
			return &PtrV{}
		case u.Info()&types.IsComplex != 0:
			return &OpaqueV{Tag: "complex", S: "(0 + 0i)"}
		case u.Kind() == types.UntypedNil:
			return nil
		}
		ex.unsupported("zero of basic %v", u)
	case *types.Pointer:
		return &PtrV{T: u.Elem()}
	case *types.Struct:
		sv := &StructV{T: u, F: make([]*Cell, u.NumFields())}
		var offs []int64
		if addr != 0 && u.NumFields() > 0 {
			fs := make([]*types.Var, u.NumFields())
			for i := range fs {
				fs[i] = u.Field(i)
			}
			offs = ex.sizes.Offsetsof(fs)
		}
		for i := range sv.F {
			fa := uint64(0)
			if offs != nil {
				fa = addr + uint64(offs[i])
			}
			sv.F[i] = &Cell{V: ex.zero(u.Field(i).Type(), fa)}
		}
		return sv
	case *types.Array:
		return &ArrV{N: i64(u.Len()), ElemT: u.Elem(), Addr: addr, ESize: ex.sizeof(u.Elem()), ex: ex}
	case *types.Slice:
		return &SliceV{Len: i64(0), Cap: i64(0)}
	case *types.Map:
		return (*MapV)(nil)
	case *types.Chan:
		return (*ChanV)(nil)
	case *types.Signature:
		return (*ClosureV)(nil)
	case *types.Interface:
		return &IfaceV{}
	case *types.Tuple:
		tv := make(TupleV, u.Len())
		for i := range tv {
			tv[i] = ex.zero(u.At(i).Type(), 0)
		}
		return tv
	}
	ex.unsupported("zero of %v", t)
	return nil
}

func (ex *Exec) copyVal(v Value) Value {
	switch x := v.(type) {
	case *StructV:
		n := &StructV{T: x.T, F: make([]*Cell, len(x.F))}
		for i, c := range x.F {
			n.F[i] = &Cell{V: ex.copyVal(c.V)}
		}
		return n
	case *ArrV:
		n := &ArrV{N: x.N, ElemT: x.ElemT, ESize: x.ESize, ex: ex}
		n.C = make([]*Cell, len(x.C))
		for i, c := range x.C {
			n.C[i] = &Cell{V: ex.copyVal(c.V)}
		}
		return n
	}
	return v
}

func (ex *Exec) storeInto(c *Cell, v Value) {
	if c.RO != "" && ex.roMatters(c.RO, c.V, v) {
		ex.roStore(c.RO)
	}
	ex.storeRaw(c, v)
}

// roMatters: memory frozen under a "shared-..." label must not be written at all (an unsynchronised write is a
// data race whatever it writes); under any other label only a store that changes the value is a modification.
func (ex *Exec) roMatters(label string, old, nv Value) bool {
	if strings.HasPrefix(label, "shared") {
		return true
	}
	same := ex.sameState(old, nv, map[[2]interface{}]bool{}, 0)
	return !(same.IsConst() && same.Bool())
}

func (ex *Exec) storeRaw(c *Cell, v Value) {
	switch x := v.(type) {
	case *StructV:
		if d, ok := c.V.(*StructV); ok && len(d.F) == len(x.F) {
			for i := range x.F {
				ex.storeRaw(d.F[i], x.F[i].V)
			}
			return
		}
		c.V = ex.copyVal(v)
		return
	case *ArrV:
		if d, ok := c.V.(*ArrV); ok {
			n, _ := constInt(x.N)
			for i := 0; i < n; i++ {
				ex.storeRaw(d.cell(i), x.cell(i).V)
			}
			return
		}
		c.V = ex.copyVal(v)
		return
	}
	c.V = v
}

func (ex *Exec) roStore(label string) {
	if ex.violation == nil {
		ex.fail("store-to-"+label, "write to memory marked "+label)
	}
}

func (ex *Exec) load(p *PtrV, t types.Type) Value {
	if p.sym() != nil {
		return ex.loadSym(p)
	}
	if p.P == nil {
		ex.gopanic("runtime error: invalid memory address or nil pointer dereference")
	}
	v := ex.copyVal(p.P.V)
	// unsafe re-typing between float and integer cells
	if tm, ok := v.(*Term); ok && t != nil {
		if tm.S.K == SFP && isInteger(t) {
			return FToBits(tm)
		}
		if tm.S.K == SBV && isFloat(t) {
			return FFromBits(tm)
		}
		if tm.S.K == SBV && isInteger(t) && bvWidth(t) != tm.S.W {
			ex.unsupported("unsafe load width change %d->%d", tm.S.W, bvWidth(t))
		}
	}
	return v
}

// ---------- symbolic pointers (symbolic index into an array of flat scalars) ----------

type symPtr struct {
	arr  *ArrV
	off  int
	n    int
	idx  *Term // 64-bit
	path []int
}

func (p *PtrV) sym() *symPtr {
	if p.Addr == symMarker {
		if sp, ok := p.T.(*symPtrType); ok {
			return sp.sp
		}
	}
	return nil
}

const symMarker = 0xfeedfacefeed

type symPtrType struct {
	types.Type
	sp *symPtr
}

func (s *symPtrType) Underlying() types.Type { return s }
func (s *symPtrType) String() string         { return "symptr" }

func mkSymPtr(sp *symPtr) *PtrV {
	return &PtrV{P: &Cell{}, Addr: symMarker, T: &symPtrType{sp: sp}}
}

func (ex *Exec) loadSym(p *PtrV) Value {
	sp := p.sym()
	var acc Value
	for i := sp.n - 1; i >= 0; i-- {
		v := ex.copyVal(sp.arr.cell(sp.off + i).V)
		for _, f := range sp.path {
			v = v.(*StructV).F[f].V
		}
		if acc == nil {
			acc = v
		} else {
			acc = ex.mergeIte(Eq(sp.idx, i64(int64(i))), v, acc)
		}
	}
	return acc
}

func (ex *Exec) mergeIte(c *Term, a, b Value) Value {
	switch x := a.(type) {
	case *Term:
		return Ite(c, x, b.(*Term))
	case *StructV:
		y := b.(*StructV)
		n := &StructV{T: x.T, F: make([]*Cell, len(x.F))}
		for i := range x.F {
			n.F[i] = &Cell{V: ex.mergeIte(c, x.F[i].V, y.F[i].V)}
		}
		return n
	}
	ex.unsupported("mergeIte of %T", a)
	return nil
}

func flatScalar(t types.Type) bool {
	switch u := under(t).(type) {
	case *types.Basic:
		return u.Info()&(types.IsInteger|types.IsBoolean|types.IsFloat) != 0
	case *types.Struct:
		for i := 0; i < u.NumFields(); i++ {
			if !flatScalar(u.Field(i).Type()) {
				return false
			}
		}
		return true
	}
	return false
}

// ---------- decisions ----------

// feasible reports whether PC ∧ c is satisfiable (Unknown counts as feasible).
func (ex *Exec) feasible(c *Term) bool {
	if c.IsConst() {
		return c.Bool()
	}
	v, _ := ex.solve(c, nil)
	return v != Unsat
}

func (ex *Exec) inputVars() []*Term {
	var vars []*Term
	for _, in := range ex.inputs {
		for _, t := range in.Term {
			if t != nil && !t.IsConst() {
				vars = append(vars, t)
			}
		}
	}
	return vars
}

// evalModel evaluates a term under the current model (a satisfying assignment of the path condition).
func (ex *Exec) evalModel(t *Term) *Term {
	if ex.model == nil {
		ex.model = Model{}
	}
	return Eval(t, ex.model, map[*Term]*Term{})
}

// extend adds c to the path condition, refreshing the model if the current one does not satisfy c.
// Returns false if PC ∧ c is unsatisfiable.
func (ex *Exec) extend(c *Term, knownByModel bool) bool {
	if !knownByModel {
		v, m := ex.solve(c, ex.inputVars())
		if v == Unknown && ex.W != nil {
			v = ex.W.portfolio(ex, c)
			m = nil
			if v == Sat {
				ex.modelStale = true
			}
		}
		if v == Unsat {
			return false
		}
		if v == Sat && m != nil {
			ex.model = m
		}
		if v == Unknown {
			ex.unknowns = append(ex.unknowns, ex.curHarness+": branch feasibility unknown "+ex.solver.lastErr)
			panic(pathEnd{"unknown", "branch feasibility"})
		}
	}
	ex.pc = append(ex.pc, c)
	return true
}

// branch decides a symbolic condition. The side satisfied by the current model is taken without a solver
// call; the other side is recorded as an open alternative and checked for feasibility when it is explored.
func (ex *Exec) branch(c *Term) bool {
	if c.IsConst() {
		return c.Bool()
	}
	ex.pathSym = true
	if ex.pos < len(ex.trail) {
		d := ex.trail[ex.pos]
		ex.pos++
		if d.Kind != 'b' {
			panic(fmt.Sprintf("trail desync: expected branch, got %c", d.Kind))
		}
		side := c
		if !d.Taken {
			side = Not(c)
		}
		if d.Unchecked {
			d.Unchecked = false
			if !ex.extend(side, false) {
				panic(pathEnd{"infeasible", ""})
			}
			return d.Taken
		}
		ex.extendReplay(side)
		return d.Taken
	}
	ex.ensureModel()
	taken := ex.evalModel(c).Bool()
	d := &Decision{Kind: 'b', Taken: taken, AltOpen: true, M: ex.model}
	if ex.W.verbose && len(ex.callStack) > 0 {
		d.Where = ex.callStack[len(ex.callStack)-1]
	}
	alt := c
	if taken {
		alt = Not(c)
	}
	ex.checkAlt(d, alt)
	ex.trail = append(ex.trail, d)
	ex.pos++
	if taken {
		ex.extend(c, true)
	} else {
		ex.extend(Not(c), true)
	}
	return taken
}

// checkAlt decides eagerly whether the side not taken is feasible, so that an infeasible alternative never
// costs a re-execution; the model of a feasible alternative is kept for the flip.
func (ex *Exec) checkAlt(d *Decision, alt *Term) {
	v, m := ex.solve(alt, ex.inputVars())
	switch v {
	case Unsat:
		d.AltOpen = false
		ex.prunedAlts++
	case Sat:
		d.AltChecked = true
		d.AltM = m
	default:
		// unknown: explore it; the flip re-checks with the full portfolio and reports inconclusive if needed
	}
}

// extendReplay re-asserts a side already known feasible; the model is refreshed lazily.
func (ex *Exec) extendReplay(side *Term) {
	ex.pc = append(ex.pc, side)
	if ex.model != nil && !ex.evalModel(side).Bool() {
		ex.model = nil
		ex.modelStale = true
	}
}

// ensureModel makes sure ex.model satisfies the path condition (needed before model-guided decisions).
func (ex *Exec) ensureModel() {
	if !ex.modelStale {
		return
	}
	ex.modelStale = false
	if v, m := ex.solve(nil, ex.inputVars()); v == Sat {
		ex.model = m
	} else {
		ex.model = Model{}
	}
}

// assume adds a harness/engine assumption; an unsatisfiable one ends the path.
func (ex *Exec) assume(c *Term) {
	if c.IsConst() {
		if !c.Bool() {
			panic(pathEnd{"assume", ""})
		}
		return
	}
	ex.ensureModel()
	if ex.evalModel(c).Bool() {
		ex.extend(c, true)
		return
	}
	if !ex.extend(c, false) {
		panic(pathEnd{"assume", "unsatisfiable assumption"})
	}
}

// choice forks n ways on a concrete value.
func (ex *Exec) choice(n int) int {
	if n <= 0 {
		panic(pathEnd{"assume", "empty choice"})
	}
	if n == 1 {
		return 0
	}
	if ex.pos < len(ex.trail) {
		d := ex.trail[ex.pos]
		ex.pos++
		if d.Kind != 'c' {
			panic(fmt.Sprintf("trail desync: expected choice, got %c", d.Kind))
		}
		return d.Choice
	}
	d := &Decision{Kind: 'c', Choice: 0, N: n, AltOpen: true, M: ex.model}
	ex.trail = append(ex.trail, d)
	ex.pos++
	return 0
}

// pick concretises a term by forking over its feasible values.
func (ex *Exec) pick(t *Term) uint64 {
	if t.IsConst() {
		return t.C
	}
	ex.pathSym = true
	for n := 0; ; n++ {
		if n > 70000 {
			ex.unsupported("too many concretisations of one term")
		}
		if ex.pos < len(ex.trail) {
			d := ex.trail[ex.pos]
			ex.pos++
			if d.Kind != 'v' {
				panic(fmt.Sprintf("trail desync: expected value pick, got %c", d.Kind))
			}
			c := Eq(t, &Term{Op: "const", S: t.S, C: d.Val})
			if d.Taken {
				ex.extendReplay(c)
				return d.Val
			}
			if d.Unchecked {
				d.Unchecked = false
				if !ex.extend(Not(c), false) {
					panic(pathEnd{"infeasible", ""})
				}
				continue
			}
			ex.extendReplay(Not(c))
			continue
		}
		ex.ensureModel()
		val := ex.evalModel(t).C
		c := Eq(t, &Term{Op: "const", S: t.S, C: val})
		d := &Decision{Kind: 'v', Taken: true, AltOpen: true, Val: val, M: ex.model}
		ex.checkAlt(d, Not(c))
		ex.trail = append(ex.trail, d)
		ex.pos++
		ex.extend(c, true)
		return val
	}
}

func (ex *Exec) concInt(t *Term) int {
	if t.IsConst() {
		return int(t.Int64())
	}
	v := ex.pick(t)
	return int(sx(v, t.S.W))
}

// ---------- assertions ----------

func (ex *Exec) fail(id, msg string) {
	v := &Violation{Harness: ex.curHarness, Assert: id, Msg: msg, Known: ex.knownMode}
	v.Trace = append(v.Trace, ex.trace...)
	// model
	var vars []*Term
	for _, in := range ex.inputs {
		for _, t := range in.Term {
			if t != nil && !t.IsConst() {
				vars = append(vars, t)
			}
		}
	}
	m := ex.failModel
	ex.failModel = nil
	if m == nil && len(vars) > 0 {
		var v Verdict
		if v, m = ex.solve(nil, vars); v != Sat {
			m = Model{}
		}
	}
	for _, in := range ex.inputs {
		r := InputRec{Name: in.Name, Kind: in.Kind}
		if in.Kind == "choice" {
			r.Val = in.Val
		} else {
			for _, t := range in.Term {
				if t.IsConst() {
					r.Val = append(r.Val, t.C)
				} else {
					r.Val = append(r.Val, m[t.Name])
				}
			}
		}
		v.Inputs = append(v.Inputs, r)
	}
	ex.violation = v
	panic(pathEnd{"violation", id + ": " + msg})
}

func (ex *Exec) vassert(id string, c *Term) {
	ex.asserts++
	if c.IsConst() {
		if !c.Bool() {
			ex.fail(id, "assertion false on a concrete path")
		}
		return
	}
	ex.assertSym++
	ex.pathSym = true
	v, m := ex.solve(Not(c), ex.inputVars())
	if v == Unknown && ex.W != nil {
		v = ex.W.portfolio(ex, Not(c))
		m = nil
	}
	switch v {
	case Sat:
		ex.pc = append(ex.pc, Not(c))
		ex.failModel = m
		ex.fail(id, "assertion can be false")
	case Unsat:
		if ex.W != nil && ex.W.crossCheck {
			ex.W.cross(ex, Not(c), id)
		}
		ex.pc = append(ex.pc, c)
	default:
		ex.unknowns = append(ex.unknowns, ex.curHarness+"/"+id+": solver unknown "+ex.solver.lastErr)
		panic(pathEnd{"unknown", id})
	}
}

// ---------- constants ----------

func (ex *Exec) constValue(c *ssa.Const) Value {
	t := c.Type()
	if c.Value == nil {
		return ex.zero(t, 0)
	}
	switch u := under(t).(type) {
	case *types.Basic:
		switch {
		case u.Info()&types.IsBoolean != 0:
			return mkBool(constant.BoolVal(c.Value))
		case u.Info()&types.IsInteger != 0:
			w := bvWidth(u)
			if iv, ok := constant.Int64Val(constant.ToInt(c.Value)); ok {
				return mkBV(w, uint64(iv))
			}
			uv, _ := constant.Uint64Val(constant.ToInt(c.Value))
			return mkBV(w, uv)
		case u.Info()&types.IsFloat != 0:
			f, _ := constant.Float64Val(c.Value)
			return fconst(floatWidth(u), f)
		case u.Info()&types.IsComplex != 0:
			return &OpaqueV{Tag: "complex", S: c.Value.String()}
		case u.Info()&types.IsString != 0:
			if c.Value.Kind() == constant.String {
				return strConst(constant.StringVal(c.Value))
			}
			iv, _ := constant.Int64Val(c.Value)
			return strConst(string(rune(iv)))
		}
	}
	ex.unsupported("const %v of type %v", c.Value, t)
	return nil
}

// ---------- frame evaluation ----------

func (ex *Exec) get(fr *frame, v ssa.Value) Value {
	switch x := v.(type) {
	case *ssa.Const:
		return ex.constValue(x)
	case *ssa.Global:
		return ex.globalPtr(x)
	case *ssa.Function:
		return x
	case *ssa.Builtin:
		return x
	}
	r, ok := fr.env[v]
	if !ok {
		panic(fmt.Sprintf("get: no value for %s (%T) in %s", v.Name(), v, fr.fn))
	}
	return r
}

func (ex *Exec) globalPtr(g *ssa.Global) *PtrV {
	c, ok := ex.globals[g]
	et := g.Type().(*types.Pointer).Elem()
	if !ok {
		a := ex.alloc(ex.sizeof(et))
		c = &Cell{V: ex.zero(et, a)}
		if ex.globalsFrozen != "" && g.Pkg != nil && g.Pkg.Pkg.Path() == "github.com/vogo/gohessian" {
			c.RO = ex.globalsFrozen
		}
		ex.globals[g] = c
		ex.globalAddrs()[g] = a
	}
	return &PtrV{P: c, Addr: ex.globalAddrs()[g], T: et}
}

func (ex *Exec) globalAddrs() map[*ssa.Global]uint64 {
	if ex.gaddr == nil {
		ex.gaddr = map[*ssa.Global]uint64{}
	}
	return ex.gaddr
}

func (ex *Exec) runInit(p *ssa.Package) {
	fn := p.Func("init")
	if fn != nil {
		ex.call(fn, nil, nil)
	}
}

var initWhitelist = map[string]bool{
	"github.com/vogo/gohessian": true, "io": true, "errors": true, "unicode/utf8": true, "bufio": true,
	"bytes": true, "strings": false, "encoding/binary": true, "unicode": false, "math": true, "sort": false,
}

func (ex *Exec) call(fn *ssa.Function, args []Value, env []Value) (result Value) {
	name := fn.String()
	if fn.Synthetic == "package initializer" {
		// package initialiser: only whitelisted packages are executed (init$guard handles repeats)
		if !initWhitelist[fn.Pkg.Pkg.Path()] {
			return nil
		}
	}
	if in, ok := intrinsics[name]; ok {
		ex.intrSeen[name] = true
		return in(ex, fn, args)
	}
	if fn.Blocks == nil {
		if r, ok := ex.nativeCall(fn, args); ok {
			return r
		}
		ex.unsupported("external function %s has no model", name)
	}
	if fn.Pkg != nil && fn.Pkg.Pkg.Path() == "reflect" {
		// reflect's own code works on runtime representations this executor does not have
		ex.unsupported("reflect operation %s is not modelled", name)
	}
	if fn.Pkg != nil {
		ex.funcsSeen[name] = true
	} else {
		ex.funcsSeen[name] = true
	}
	ex.depth++
	ex.callStack = append(ex.callStack, name)
	defer func() { ex.callStack = ex.callStack[:len(ex.callStack)-1] }()
	if ex.depth > ex.maxDepth {
		if ex.stepLimit > 0 {
			ex.stepLimit = 0
			ex.fail("step-bound", "unbounded recursion (call depth exceeded) in "+name)
		}
		panic(pathEnd{"budget", "call depth exceeded in " + name})
	}
	defer func() { ex.depth-- }()

	fr := &frame{fn: fn, env: make(map[ssa.Value]Value, 16)}
	for i, p := range fn.Params {
		fr.env[p] = args[i]
	}
	for i, fv := range fn.FreeVars {
		fr.env[fv] = env[i]
	}
	fr.block = fn.Blocks[0]
	if ex.tracing {
		ex.trace = append(ex.trace, strings.Repeat(" ", ex.depth)+"call "+name)
	}
	return ex.runFrame(fr)
}

func (ex *Exec) runFrame(fr *frame) (result Value) {
	defer func() {
		if fr.panicking {
			return
		}
		r := recover()
		if r == nil {
			return
		}
		gp, ok := r.(*goPanic)
		if !ok || len(fr.defers) == 0 {
			panic(r)
		}
		// run deferred calls with the panic in flight
		fr.panicking = true
		fr.panicVal = gp
		ex.panicStack = append(ex.panicStack, fr)
		ex.runDefers(fr)
		ex.panicStack = ex.panicStack[:len(ex.panicStack)-1]
		if fr.panicVal != nil {
			panic(fr.panicVal)
		}
		// recovered
		fr.panicking = false
		if fr.fn.Recover != nil {
			fr.block = fr.fn.Recover
			fr.prev = nil
			result = ex.runBlocks(fr)
			return
		}
		result = ex.zeroResults(fr.fn)
	}()
	return ex.runBlocks(fr)
}

func (ex *Exec) zeroResults(fn *ssa.Function) Value {
	res := fn.Signature.Results()
	switch res.Len() {
	case 0:
		return nil
	case 1:
		return ex.zero(res.At(0).Type(), 0)
	}
	return ex.zero(res, 0)
}

func (ex *Exec) runDefers(fr *frame) {
	for len(fr.defers) > 0 {
		d := fr.defers[len(fr.defers)-1]
		fr.defers = fr.defers[:len(fr.defers)-1]
		ex.curFrame = fr
		d()
	}
}

func (ex *Exec) runBlocks(fr *frame) Value {
	for {
		blk := fr.block
	instrs:
		for _, ins := range blk.Instrs {
			ex.steps++
			if ex.steps > ex.budget {
				panic(pathEnd{"budget", fmt.Sprintf("step budget %d exhausted in %s", ex.budget, fr.fn)})
			}
			if stepLog && ex.steps%200000 == 0 {
				fmt.Fprintf(os.Stderr, "STEP %d depth=%d pc=%d trail=%d/%d stack=%v\n", ex.steps, ex.depth, len(ex.pc), ex.pos, len(ex.trail), ex.callStack[max(0, len(ex.callStack)-6):])
			}
			if ex.stepLimit > 0 && ex.steps > ex.stepLimit {
				ex.stepLimit = 0
				ex.fail("step-bound", "execution exceeded the harness's step bound in "+fr.fn.String())
			}
			switch x := ins.(type) {
			case *ssa.Jump:
				fr.prev, fr.block = blk, blk.Succs[0]
				break instrs
			case *ssa.If:
				c := ex.get(fr, x.Cond).(*Term)
				if ex.branch(c) {
					fr.prev, fr.block = blk, blk.Succs[0]
				} else {
					fr.prev, fr.block = blk, blk.Succs[1]
				}
				break instrs
			case *ssa.Return:
				var res Value
				switch len(x.Results) {
				case 0:
				case 1:
					res = ex.get(fr, x.Results[0])
				default:
					tv := make(TupleV, len(x.Results))
					for i, r := range x.Results {
						tv[i] = ex.get(fr, r)
					}
					res = tv
				}
				return res
			case *ssa.Panic:
				v := ex.get(fr, x.X)
				panic(&goPanic{v: v, msg: ex.panicMsg(v)})
			case *ssa.RunDefers:
				ex.runDefers(fr)
			default:
				ex.instr(fr, ins)
			}
		}
	}
}

func (ex *Exec) panicMsg(v Value) string {
	if iv, ok := v.(*IfaceV); ok && iv.T != nil {
		switch p := iv.V.(type) {
		case *StrV:
			return p.String()
		case *OpaqueV:
			return p.S
		}
		return "panic(" + iv.T.String() + ")"
	}
	return "panic"
}

func (ex *Exec) instr(fr *frame, ins ssa.Instruction) {
	switch x := ins.(type) {
	case *ssa.DebugRef:
	case *ssa.Alloc:
		et := x.Type().(*types.Pointer).Elem()
		a := ex.alloc(ex.sizeof(et))
		c := &Cell{V: ex.zero(et, a)}
		fr.env[x] = &PtrV{P: c, Addr: a, T: et}
	case *ssa.UnOp:
		fr.env[x] = ex.unop(fr, x)
	case *ssa.BinOp:
		fr.env[x] = ex.binop(x.Op, x.X.Type(), ex.get(fr, x.X), ex.get(fr, x.Y), x.Y.Type())
	case *ssa.Store:
		p := ex.get(fr, x.Addr).(*PtrV)
		if p.sym() != nil {
			ex.storeSym(p, ex.get(fr, x.Val))
			return
		}
		if p.P == nil {
			ex.gopanic("runtime error: invalid memory address or nil pointer dereference")
		}
		ex.storeInto(p.P, ex.get(fr, x.Val))
	case *ssa.Call:
		fr.env[x] = ex.doCall(fr, &x.Call)
	case *ssa.Phi:
		for i, pred := range x.Block().Preds {
			if pred == fr.prev {
				fr.env[x] = ex.get(fr, x.Edges[i])
				return
			}
		}
		panic("phi: no matching predecessor")
	case *ssa.Convert:
		fr.env[x] = ex.convert(x.X.Type(), x.Type(), ex.get(fr, x.X))
	case *ssa.ChangeType:
		fr.env[x] = ex.get(fr, x.X)
	case *ssa.ChangeInterface:
		fr.env[x] = ex.get(fr, x.X)
	case *ssa.MakeInterface:
		fr.env[x] = &IfaceV{T: x.X.Type(), V: ex.copyVal(ex.get(fr, x.X))}
	case *ssa.TypeAssert:
		fr.env[x] = ex.typeAssert(x, ex.get(fr, x.X).(*IfaceV))
	case *ssa.Extract:
		fr.env[x] = ex.get(fr, x.Tuple).(TupleV)[x.Index]
	case *ssa.FieldAddr:
		p := ex.get(fr, x.X).(*PtrV)
		fr.env[x] = ex.fieldAddr(p, x.Field, x.X.Type().(*types.Pointer).Elem())
	case *ssa.Field:
		sv := ex.get(fr, x.X).(*StructV)
		fr.env[x] = ex.copyVal(sv.F[x.Field].V)
	case *ssa.IndexAddr:
		fr.env[x] = ex.indexAddr(ex.get(fr, x.X), ex.get(fr, x.Index).(*Term), x.Index.Type(), x.X.Type())
	case *ssa.Index:
		fr.env[x] = ex.index(ex.get(fr, x.X), ex.get(fr, x.Index).(*Term), x.Index.Type())
	case *ssa.Lookup:
		fr.env[x] = ex.lookup(x, ex.get(fr, x.X), ex.get(fr, x.Index))
	case *ssa.MapUpdate:
		m := ex.get(fr, x.Map).(*MapV)
		ex.mapUpdate(m, ex.get(fr, x.Key), ex.get(fr, x.Value))
	case *ssa.MakeMap:
		mt := under(x.Type()).(*types.Map)
		fr.env[x] = &MapV{KT: mt.Key(), VT: mt.Elem(), Addr: ex.alloc(48)}
	case *ssa.MakeSlice:
		st := under(x.Type()).(*types.Slice)
		l := ex.toInt64(ex.get(fr, x.Len).(*Term), x.Len.Type())
		c := ex.toInt64(ex.get(fr, x.Cap).(*Term), x.Cap.Type())
		fr.env[x] = ex.makeSlice(st.Elem(), l, c)
	case *ssa.MakeChan:
		n := ex.concInt(ex.get(fr, x.Size).(*Term))
		fr.env[x] = &ChanV{Cap: n, Addr: ex.alloc(96)}
	case *ssa.MakeClosure:
		env := make([]Value, len(x.Bindings))
		for i, b := range x.Bindings {
			env[i] = ex.get(fr, b)
		}
		fr.env[x] = &ClosureV{Fn: x.Fn.(*ssa.Function), Env: env}
	case *ssa.Slice:
		fr.env[x] = ex.sliceOp(fr, x)
	case *ssa.Range:
		fr.env[x] = ex.rangeIter(ex.get(fr, x.X))
	case *ssa.Next:
		fr.env[x] = ex.next(ex.get(fr, x.Iter).(*iterV), x)
	case *ssa.Defer:
		fn, args, env := ex.prepareCall(fr, &x.Call)
		fr.defers = append(fr.defers, func() { fn(args, env) })
	case *ssa.Send:
		ch := ex.get(fr, x.Chan).(*ChanV)
		ex.chanSend(ch, ex.get(fr, x.X), true)
	case *ssa.Select:
		fr.env[x] = ex.selectOp(fr, x)
	case *ssa.Go:
		ex.unsupported("go statement")
	case *ssa.SliceToArrayPointer:
		s := ex.get(fr, x.X).(*SliceV)
		if s.Arr == nil {
			fr.env[x] = &PtrV{}
			return
		}
		at := x.Type().(*types.Pointer).Elem().(*types.Array)
		n := ex.concInt(s.Len)
		if int64(n) < at.Len() {
			ex.gopanic("runtime error: cannot convert slice to array pointer")
		}
		if s.Off != 0 {
			ex.unsupported("slice-to-array-pointer with offset")
		}
		fr.env[x] = &PtrV{P: &Cell{V: s.Arr}, Addr: s.Arr.Addr, T: at}
	default:
		ex.unsupported("instruction %T", ins)
	}
}

// ---------- calls ----------

type callable func(args []Value, env []Value) Value

func (ex *Exec) prepareCall(fr *frame, c *ssa.CallCommon) (callable, []Value, []Value) {
	var args []Value
	if c.IsInvoke() {
		recv := ex.get(fr, c.Value).(*IfaceV)
		for _, a := range c.Args {
			args = append(args, ex.get(fr, a))
		}
		return func(args []Value, env []Value) Value { return ex.invoke(recv, c.Method, args) }, args, nil
	}
	for _, a := range c.Args {
		args = append(args, ex.get(fr, a))
	}
	fv := ex.get(fr, c.Value)
	switch f := fv.(type) {
	case *ssa.Function:
		return func(args []Value, env []Value) Value { return ex.call(f, args, nil) }, args, nil
	case *ClosureV:
		if f == nil {
			ex.gopanic("runtime error: invalid memory address or nil pointer dereference")
		}
		return func(args []Value, env []Value) Value { return ex.call(f.Fn, args, env) }, args, f.Env
	case *ssa.Builtin:
		caller := fr
		return func(args []Value, env []Value) Value { return ex.builtin(caller, f, args, c) }, args, nil
	}
	ex.unsupported("call of %T", fv)
	return nil, nil, nil
}

func (ex *Exec) doCall(fr *frame, c *ssa.CallCommon) Value {
	fn, args, env := ex.prepareCall(fr, c)
	ex.curFrame = fr
	return fn(args, env)
}

func (ex *Exec) callValue(fv Value, args []Value) Value {
	switch f := fv.(type) {
	case *ssa.Function:
		return ex.call(f, args, nil)
	case *ClosureV:
		if f == nil {
			ex.gopanic("runtime error: invalid memory address or nil pointer dereference")
		}
		return ex.call(f.Fn, args, f.Env)
	}
	ex.unsupported("callValue of %T", fv)
	return nil
}

func (ex *Exec) invoke(recv *IfaceV, m *types.Func, args []Value) Value {
	if r, ok := ex.invokeIntrinsic(recv, m, args); ok {
		return r
	}
	if recv.T == nil {
		ex.gopanic("runtime error: invalid memory address or nil pointer dereference")
	}
	fn := ex.prog.LookupMethod(recv.T, m.Pkg(), m.Name())
	if fn == nil {
		ex.unsupported("no method %s on %v", m.Name(), recv.T)
	}
	return ex.call(fn, append([]Value{recv.V}, args...), nil)
}

// ---------- misc instruction helpers ----------

func (ex *Exec) toInt64(t *Term, ty types.Type) *Term {
	if t.S.W == 64 {
		return t
	}
	if isSigned(ty) {
		return SExt(t, 64)
	}
	return ZExt(t, 64)
}

func (ex *Exec) fieldAddr(p *PtrV, field int, st types.Type) *PtrV {
	if sp := p.sym(); sp != nil {
		n := *sp
		n.path = append(append([]int{}, sp.path...), field)
		return mkSymPtr(&n)
	}
	if p.P == nil {
		ex.gopanic("runtime error: invalid memory address or nil pointer dereference")
	}
	sv, ok := p.P.V.(*StructV)
	if !ok {
		ex.unsupported("FieldAddr on %T (%v)", p.P.V, st)
	}
	off := int64(0)
	if s, ok := under(st).(*types.Struct); ok && field > 0 {
		fs := make([]*types.Var, field+1)
		for i := range fs {
			fs[i] = s.Field(i)
		}
		off = ex.sizes.Offsetsof(fs)[field]
	}
	var ft types.Type
	if s, ok := under(st).(*types.Struct); ok {
		ft = s.Field(field).Type()
	}
	return &PtrV{P: sv.F[field], Addr: p.Addr + uint64(off), T: ft}
}

func (ex *Exec) boundsCheck(idx *Term, n *Term) {
	ok := BVCmp("bvult", idx, n)
	if !ex.branch(ok) {
		ex.gopanic("runtime error: index out of range")
	}
}

func (ex *Exec) indexAddr(xv Value, idx *Term, idxT types.Type, xt types.Type) *PtrV {
	idx = ex.toInt64(idx, idxT)
	var arr *ArrV
	off := 0
	var n *Term
	switch v := xv.(type) {
	case *SliceV:
		if v.Arr == nil {
			ex.gopanic("runtime error: index out of range [_] with length 0")
		}
		arr, off, n = v.Arr, v.Off, v.Len
	case *PtrV:
		if v.P == nil {
			ex.gopanic("runtime error: invalid memory address or nil pointer dereference")
		}
		a, ok := v.P.V.(*ArrV)
		if !ok {
			ex.unsupported("IndexAddr on pointer to %T", v.P.V)
		}
		arr, n = a, a.N
	default:
		ex.unsupported("IndexAddr on %T", xv)
	}
	ex.boundsCheck(idx, n)
	if idx.IsConst() {
		i := int(idx.Int64())
		return &PtrV{P: arr.cell(off + i), Addr: arr.Addr + uint64(int64(off+i)*arr.ESize), T: arr.ElemT}
	}
	if nn, ok := constInt(n); ok && nn > 4 && flatScalar(arr.ElemT) {
		return mkSymPtr(&symPtr{arr: arr, off: off, n: nn, idx: idx})
	}
	i := ex.concInt(idx)
	return &PtrV{P: arr.cell(off + i), Addr: arr.Addr + uint64(int64(off+i)*arr.ESize), T: arr.ElemT}
}

func (ex *Exec) storeSym(p *PtrV, v Value) {
	sp := p.sym()
	i := ex.concInt(sp.idx)
	c := sp.arr.cell(sp.off + i)
	for _, f := range sp.path {
		c = c.V.(*StructV).F[f]
	}
	ex.storeInto(c, v)
}

func (ex *Exec) index(xv Value, idx *Term, idxT types.Type) Value {
	idx = ex.toInt64(idx, idxT)
	switch v := xv.(type) {
	case *ArrV:
		ex.boundsCheck(idx, v.N)
		if !idx.IsConst() {
			if nn, ok := constInt(v.N); ok && flatScalar(v.ElemT) {
				return ex.loadSym(mkSymPtr(&symPtr{arr: v, n: nn, idx: idx}))
			}
		}
		return ex.copyVal(v.cell(ex.concInt(idx)).V)
	case *StrV:
		return ex.strIndex(v, idx)
	}
	ex.unsupported("Index on %T", xv)
	return nil
}

func (ex *Exec) strIndex(s *StrV, idx *Term) Value {
	ex.boundsCheck(idx, i64(int64(len(s.B))))
	if idx.IsConst() {
		return s.B[idx.Int64()]
	}
	var acc *Term
	for i := len(s.B) - 1; i >= 0; i-- {
		if acc == nil {
			acc = s.B[i]
		} else {
			acc = Ite(Eq(idx, i64(int64(i))), s.B[i], acc)
		}
	}
	return acc
}

func (ex *Exec) makeSlice(elem types.Type, l, c *Term) *SliceV {
	// len out of range / cap out of range
	if !ex.branch(And(BVCmp("bvsle", i64(0), l), BVCmp("bvsle", l, c))) {
		ex.gopanic("runtime error: makeslice: len out of range")
	}
	ex.checkAlloc(c, elem)
	es := ex.sizeof(elem)
	total := int64(16)
	if cc, ok := constInt(c); ok {
		total = int64(cc) * es
		if total == 0 {
			total = 0
		}
	} else {
		total = 1 << 20
	}
	arr := &ArrV{N: c, ElemT: elem, Addr: ex.alloc(total), ESize: es, ex: ex}
	return &SliceV{Arr: arr, Len: l, Cap: c}
}

// checkAlloc enforces the harness's allocation bound on a (possibly symbolic) element count.
func (ex *Exec) checkAlloc(n *Term, elem types.Type) {
	if ex.allocBound <= 0 {
		if nn, ok := constInt(n); ok && nn > 1<<26 {
			ex.unsupported("allocation of %d elements", nn)
		}
		if !n.IsConst() {
			// keep symbolic sizes sane even without an explicit bound
			if v, m := ex.solve(BVCmp("bvslt", i64(1<<26), n), ex.inputVars()); v != Unsat {
				ex.pc = append(ex.pc, BVCmp("bvslt", i64(1<<26), n))
				ex.failModel = m
				ex.fail("alloc-unbounded", "allocation size is input-controlled and can exceed 2^26 elements")
			}
		}
		return
	}
	over := BVCmp("bvslt", i64(ex.allocBound), n)
	if over.IsConst() {
		ex.asserts++
		if over.Bool() {
			ex.fail("alloc-bound", fmt.Sprintf("allocation of %d elements exceeds bound %d", n.Int64(), ex.allocBound))
		}
		return
	}
	ex.asserts++
	ex.assertSym++
	if v, m := ex.solve(over, ex.inputVars()); v != Unsat {
		ex.pc = append(ex.pc, over)
		ex.failModel = m
		ex.fail("alloc-bound", fmt.Sprintf("allocation size is input-controlled and can exceed %d elements", ex.allocBound))
	}
}

func (ex *Exec) sliceOp(fr *frame, x *ssa.Slice) Value {
	xv := ex.get(fr, x.X)
	gi := func(v ssa.Value) *Term {
		if v == nil {
			return nil
		}
		return ex.toInt64(ex.get(fr, v).(*Term), v.Type())
	}
	lo, hi, max := gi(x.Low), gi(x.High), gi(x.Max)
	if lo == nil {
		lo = i64(0)
	}
	check := func(c *Term) {
		if !ex.branch(c) {
			ex.gopanic("runtime error: slice bounds out of range")
		}
	}
	switch v := xv.(type) {
	case *StrV:
		n := i64(int64(len(v.B)))
		if hi == nil {
			hi = n
		}
		check(And(BVCmp("bvule", hi, n), BVCmp("bvule", lo, hi)))
		l, h := ex.concInt(lo), ex.concInt(hi)
		return &StrV{B: v.B[l:h]}
	case *SliceV:
		if hi == nil {
			hi = v.Len
		}
		if max == nil {
			max = v.Cap
		}
		check(And(BVCmp("bvule", max, v.Cap), And(BVCmp("bvule", hi, max), BVCmp("bvule", lo, hi))))
		if v.Arr == nil {
			return &SliceV{Len: i64(0), Cap: i64(0)}
		}
		l := ex.concInt(lo)
		return &SliceV{Arr: v.Arr, Off: v.Off + l, Len: BVBin("bvsub", hi, lo), Cap: BVBin("bvsub", max, lo)}
	case *PtrV:
		if v.P == nil {
			ex.gopanic("runtime error: invalid memory address or nil pointer dereference")
		}
		arr := v.P.V.(*ArrV)
		if hi == nil {
			hi = arr.N
		}
		if max == nil {
			max = arr.N
		}
		check(And(BVCmp("bvule", max, arr.N), And(BVCmp("bvule", hi, max), BVCmp("bvule", lo, hi))))
		l := ex.concInt(lo)
		return &SliceV{Arr: arr, Off: l, Len: BVBin("bvsub", hi, lo), Cap: BVBin("bvsub", max, lo)}
	}
	ex.unsupported("Slice on %T", xv)
	return nil
}

func (ex *Exec) typeAssert(x *ssa.TypeAssert, iv *IfaceV) Value {
	ok := false
	var res Value
	if iv.T != nil {
		if types.IsInterface(x.AssertedType) {
			it := under(x.AssertedType).(*types.Interface)
			ok = ex.implements(iv, it)
			if ok {
				res = iv
			}
		} else {
			ok = types.Identical(iv.T, x.AssertedType)
			if ok {
				res = ex.copyVal(iv.V)
			}
		}
	}
	if x.CommaOk {
		if !ok {
			res = ex.zero(x.AssertedType, 0)
		}
		return TupleV{res, mkBool(ok)}
	}
	if !ok {
		from := "nil"
		if iv.T != nil {
			from = iv.T.String()
		}
		ex.gopanic("interface conversion: interface is " + from + ", not " + x.AssertedType.String())
	}
	return res
}

func (ex *Exec) implements(iv *IfaceV, it *types.Interface) bool {
	if it.NumMethods() == 0 {
		return true
	}
	if _, ok := iv.V.(*RTV); ok {
		return true
	}
	return types.Implements(iv.T, it)
}

// ---------- harness plumbing ----------

func (ex *Exec) freshInput(name string, kind string, sorts []Sort) *InputRec {
	k := ex.nameCount[name]
	ex.nameCount[name] = k + 1
	full := fmt.Sprintf("%s#%d", name, k)
	r := &InputRec{Name: full, Kind: kind}
	for i, s := range sorts {
		vn := fmt.Sprintf("v_%s_%d_%d_w%d", sanitize(name), k, i, s.W)
		r.Term = append(r.Term, mkVar(vn, s))
	}
	ex.inputs = append(ex.inputs, r)
	return r
}

func sanitize(s string) string {
	var sb strings.Builder
	for _, c := range s {
		if c >= 'a' && c <= 'z' || c >= 'A' && c <= 'Z' || c >= '0' && c <= '9' {
			sb.WriteRune(c)
		} else {
			sb.WriteByte('_')
		}
	}
	return sb.String()
}

func posOf(prog *ssa.Program, p token.Pos) string {
	if !p.IsValid() {
		return "?"
	}
	return prog.Fset.Position(p).String()
}

func sortedKeys(m map[string]bool) []string {
	out := make([]string, 0, len(m))
	for k := range m {
		out = append(out, k)
	}
	sort.Strings(out)
	return out
}

var _ = os.Exit

// slice returns the conjuncts of the path condition that share variables (transitively) with extra.
// The path condition is satisfiable by invariant (ex.model satisfies it), so conjuncts over other variables
// cannot affect the satisfiability of PC ∧ extra.
func (ex *Exec) slice(extra *Term) ([]*rendered, map[string]bool) {
	var out []*rendered
	inSlice := map[string]bool{}
	if extra != nil {
		r := renderCached(ex.rcache, extra)
		out = append(out, r)
		for n := range r.vars {
			inSlice[n] = true
		}
	} else {
		for _, c := range ex.pc {
			out = append(out, renderCached(ex.rcache, c))
		}
		return out, nil
	}
	rs := make([]*rendered, len(ex.pc))
	used := make([]bool, len(ex.pc))
	for i, c := range ex.pc {
		rs[i] = renderCached(ex.rcache, c)
	}
	for changed := true; changed; {
		changed = false
		for i, r := range rs {
			if used[i] {
				continue
			}
			hit := false
			for n := range r.vars {
				if inSlice[n] {
					hit = true
					break
				}
			}
			if hit {
				used[i] = true
				changed = true
				for n := range r.vars {
					inSlice[n] = true
				}
			}
		}
	}
	for i, r := range rs {
		if used[i] {
			out = append(out, r)
		}
	}
	return out, inSlice
}

// solve decides PC ∧ extra on the relevant slice of the path condition. vars are the variables whose values
// are wanted on sat; values of variables outside the slice are taken from the current model.
func (ex *Exec) solve(extra *Term, vars []*Term) (Verdict, Model) {
	ex.ensureModelFor(extra)
	conj, inSlice := ex.slice(extra)
	want := vars
	if inSlice != nil {
		want = nil
		for _, v := range vars {
			if inSlice[v.Name] {
				want = append(want, v)
			}
		}
	}
	var v Verdict
	var m Model
	hard := ex.arithInt
	for _, c := range conj {
		if c.hard && !c.hasFP {
			hard = true
		}
	}
	for _, c := range conj {
		if c.hasFP {
			hard = false
		}
	}
	if hard {
		v, m = ex.raceSolve(conj, want)
	} else {
		v, m = ex.solver.SolveConj(conj, want)
	}
	if v == Sat && vars != nil {
		full := Model{}
		for k, val := range ex.model {
			full[k] = val
		}
		for k, val := range m {
			full[k] = val
		}
		m = full
	}
	return v, m
}

// ensureModelFor: slicing relies on ex.model satisfying the whole path condition.
func (ex *Exec) ensureModelFor(extra *Term) {
	if extra != nil && ex.modelStale {
		ex.ensureModel()
	}
}

// raceSolve: integer-arithmetic mode. The wrapped-integer rendering (z3 5.1) is raced against bit-vector
// back ends (cvc5 --solve-bv-as-int=sum, z3).
func (ex *Exec) raceSolve(conj []*rendered, vars []*Term) (Verdict, Model) {
	qlog := os.Getenv("VERIF_QLOG") != ""
	bv := bvScriptOf(conj, vars)
	tl := fmt.Sprintf("%d", ex.solver.hardTimeout)
	var terms []*Term
	for _, c := range conj {
		terms = append(terms, c.t)
	}
	var rs []racer
	if script, ok := RenderIntScript(terms, vars); ok {
		rs = append(rs, racer{name: "z3-new/int", argv: []string{"z3-new", "-in", "-t:" + tl}, script: script, strip: "_i"})
	}
	rs = append(rs,
		racer{name: "cvc5/bv-as-int", argv: []string{"cvc5", "--lang=smt2", "--solve-bv-as-int=sum", "--produce-models", "--tlimit=" + tl}, script: "(set-logic ALL)\n" + bv},
		racer{name: "z3/bv", argv: []string{"z3", "-in", "-t:" + tl}, script: bv})
	t0 := time.Now()
	v, m, who := ex.solver.race(rs, len(vars) > 0, time.Duration(ex.solver.hardTimeout+2000)*time.Millisecond)
	if qlog {
		fmt.Fprintf(os.Stderr, "QLOG race %s by %s %.2fs conj=%d\n", v, who, time.Since(t0).Seconds(), len(conj))
	}
	if v != Unknown {
		ex.intSolved++
	}
	return v, m
}

func (ex *Exec) fixedOrder() bool { return ex.fixOrder || ex.W.fixedMapOrder }
