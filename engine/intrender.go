package main

// Int-with-wrap rendering: every bit-vector term is rendered as a mathematical integer in [0, 2^w) with an
// explicit "mod 2^w" after each operation that can leave the range, so machine wrap-around is preserved.
// Used for kernels that multiply/divide 64-bit values by large constants (the date codec), where
// bit-blasting back ends time out on the "holds" direction.

import (
	"fmt"
	"math/big"
	"strings"
)

type intRenderer struct {
	names map[*Term]string
	refs  map[*Term]int
	order []*Term
	vars  map[string]*Term
	fail  string
}

func pow2(w int) string {
	return new(big.Int).Lsh(big.NewInt(1), uint(w)).String()
}

func (r *intRenderer) count(t *Term) {
	r.refs[t]++
	if r.refs[t] > 1 {
		return
	}
	if t.Op == "var" {
		r.vars[t.Name] = t
	}
	for _, a := range t.Args {
		r.count(a)
	}
	r.order = append(r.order, t)
}

// possibleOnes over-approximates the bits that can be 1 in a bit-vector term.
func possibleOnes(t *Term, memo map[*Term]uint64) uint64 {
	if v, ok := memo[t]; ok {
		return v
	}
	w := t.S.W
	var r uint64
	switch t.Op {
	case "const":
		r = t.C
	case "zext":
		r = possibleOnes(t.Args[0], memo)
	case "bvshl":
		if t.Args[1].IsConst() && t.Args[1].C < 64 {
			r = possibleOnes(t.Args[0], memo) << t.Args[1].C
		} else {
			r = mask(w)
		}
	case "bvlshr":
		if t.Args[1].IsConst() && t.Args[1].C < 64 {
			r = possibleOnes(t.Args[0], memo) >> t.Args[1].C
		} else {
			r = mask(w)
		}
	case "bvand":
		r = possibleOnes(t.Args[0], memo) & possibleOnes(t.Args[1], memo)
	case "bvor", "bvxor":
		r = possibleOnes(t.Args[0], memo) | possibleOnes(t.Args[1], memo)
	case "extract":
		r = possibleOnes(t.Args[0], memo) >> uint(t.P2)
	case "ite":
		r = possibleOnes(t.Args[1], memo) | possibleOnes(t.Args[2], memo)
	case "concat":
		r = possibleOnes(t.Args[0], memo)<<uint(t.Args[1].S.W) | possibleOnes(t.Args[1], memo)
	default:
		r = mask(w)
	}
	r &= mask(w)
	memo[t] = r
	return r
}

func (r *intRenderer) e(t *Term) string {
	if n, ok := r.names[t]; ok {
		return n
	}
	return r.raw(t)
}

func signedOf(x string, w int) string {
	if v, ok := new(big.Int).SetString(x, 10); ok {
		half := new(big.Int).Lsh(big.NewInt(1), uint(w-1))
		if v.Cmp(half) >= 0 {
			v.Sub(v, new(big.Int).Lsh(big.NewInt(1), uint(w)))
			return "(- " + new(big.Int).Neg(v).String() + ")"
		}
		return x
	}
	return fmt.Sprintf("(ite (>= %s %s) (- %s %s) %s)", x, pow2(w-1), x, pow2(w), x)
}

func wrap(x string, w int) string { return fmt.Sprintf("(mod %s %s)", x, pow2(w)) }

// contiguous reports whether m is a run of ones starting at bit lo with n bits.
func contiguous(m uint64) (lo, n int, ok bool) {
	if m == 0 {
		return 0, 0, false
	}
	for m&1 == 0 {
		m >>= 1
		lo++
	}
	for m&1 == 1 {
		m >>= 1
		n++
	}
	return lo, n, m == 0
}

func (r *intRenderer) raw(t *Term) string {
	a := func(i int) string { return r.e(t.Args[i]) }
	if t.S.K == SFP {
		r.fail = "floating point"
		return "0"
	}
	w := t.S.W
	switch t.Op {
	case "const":
		if t.S.K == SBool {
			if t.C != 0 {
				return "true"
			}
			return "false"
		}
		return new(big.Int).SetUint64(t.C).String()
	case "var":
		if t.S.K == SBool {
			return t.Name
		}
		return t.Name + "_i"
	case "not":
		return "(not " + a(0) + ")"
	case "and", "or":
		return "(" + t.Op + " " + a(0) + " " + a(1) + ")"
	case "ite":
		return "(ite " + a(0) + " " + a(1) + " " + a(2) + ")"
	case "=":
		if t.Args[0].S.K == SFP {
			r.fail = "floating point"
			return "true"
		}
		return "(= " + a(0) + " " + a(1) + ")"
	case "bvult":
		return "(< " + a(0) + " " + a(1) + ")"
	case "bvule":
		return "(<= " + a(0) + " " + a(1) + ")"
	case "bvslt":
		sw := t.Args[0].S.W
		return "(< " + signedOf(a(0), sw) + " " + signedOf(a(1), sw) + ")"
	case "bvsle":
		sw := t.Args[0].S.W
		return "(<= " + signedOf(a(0), sw) + " " + signedOf(a(1), sw) + ")"
	case "bvadd":
		return wrap("(+ "+a(0)+" "+a(1)+")", w)
	case "bvsub":
		return wrap("(- "+a(0)+" "+a(1)+")", w)
	case "bvmul":
		return wrap("(* "+a(0)+" "+a(1)+")", w)
	case "bvneg":
		return wrap("(- "+a(0)+")", w)
	case "bvnot":
		return "(- " + new(big.Int).SetUint64(mask(w)).String() + " " + a(0) + ")"
	case "bvudiv":
		return "(ite (= " + a(1) + " 0) " + new(big.Int).SetUint64(mask(w)).String() + " (div " + a(0) + " " + a(1) + "))"
	case "bvurem":
		return "(ite (= " + a(1) + " 0) " + a(0) + " (mod " + a(0) + " " + a(1) + "))"
	case "bvsdiv", "bvsrem":
		x, y := signedOf(a(0), w), signedOf(a(1), w)
		if t.Args[1].IsConst() && t.Args[1].Int64() > 0 {
			q := fmt.Sprintf("(ite (>= %s 0) (div %s %s) (- (div (- %s) %s)))", x, x, y, x, y)
			if t.Op == "bvsdiv" {
				return wrap(q, w)
			}
			return wrap(fmt.Sprintf("(- %s (* %s %s))", x, y, q), w)
		}
		// truncated division from Euclidean div (divisor non-zero is guaranteed by the executor's panic branch)
		q := fmt.Sprintf("(ite (>= %s 0) (ite (> %s 0) (div %s %s) (- (div %s (- %s)))) (ite (> %s 0) (- (div (- %s) %s)) (div (- %s) (- %s))))",
			x, y, x, y, x, y, y, x, y, x, y)
		if t.Op == "bvsdiv" {
			return wrap(q, w)
		}
		return wrap(fmt.Sprintf("(- %s (* %s %s))", x, y, q), w)
	case "bvshl":
		if t.Args[1].IsConst() {
			if t.Args[1].C >= uint64(w) {
				return "0"
			}
			return wrap("(* "+a(0)+" "+pow2(int(t.Args[1].C))+")", w)
		}
	case "bvlshr":
		if t.Args[1].IsConst() {
			if t.Args[1].C >= uint64(w) {
				return "0"
			}
			return "(div " + a(0) + " " + pow2(int(t.Args[1].C)) + ")"
		}
	case "bvashr":
		if t.Args[1].IsConst() {
			k := int(t.Args[1].C)
			if k >= w {
				k = w - 1
			}
			return wrap("(div "+signedOf(a(0), w)+" "+pow2(k)+")", w)
		}
	case "bvand":
		for i := 0; i < 2; i++ {
			if t.Args[i].IsConst() {
				lo, n, ok := contiguous(t.Args[i].C)
				if t.Args[i].C == 0 {
					return "0"
				}
				if ok {
					x := r.e(t.Args[1-i])
					if lo == 0 {
						return "(mod " + x + " " + pow2(n) + ")"
					}
					return "(* (mod (div " + x + " " + pow2(lo) + ") " + pow2(n) + ") " + pow2(lo) + ")"
				}
			}
		}
	case "bvor", "bvxor":
		memo := map[*Term]uint64{}
		if possibleOnes(t.Args[0], memo)&possibleOnes(t.Args[1], memo) == 0 {
			return "(+ " + a(0) + " " + a(1) + ")"
		}
	case "extract":
		x := a(0)
		if t.P2 > 0 {
			x = "(div " + x + " " + pow2(t.P2) + ")"
		}
		return "(mod " + x + " " + pow2(t.P1-t.P2+1) + ")"
	case "zext":
		return a(0)
	case "sext":
		return wrap(signedOf(a(0), t.Args[0].S.W), w)
	case "concat":
		return "(+ (* " + a(0) + " " + pow2(t.Args[1].S.W) + ") " + a(1) + ")"
	}
	r.fail = "operator " + t.Op + " has no integer rendering here"
	return "0"
}

// RenderIntScript renders a conjunction of terms as a one-shot integer script. ok=false if some operator
// cannot be expressed.
func RenderIntScript(pc []*Term, vars []*Term) (string, bool) {
	r := &intRenderer{names: map[*Term]string{}, refs: map[*Term]int{}, vars: map[string]*Term{}}
	for _, t := range pc {
		r.count(t)
	}
	for _, v := range vars {
		r.vars[v.Name] = v
	}
	var body strings.Builder
	nlets := 0
	// shared sub-terms become define-funs (in post-order)
	for _, n := range r.order {
		if r.refs[n] < 2 || n.Op == "const" || n.Op == "var" {
			continue
		}
		ex := r.raw(n)
		name := fmt.Sprintf("d%d", nlets)
		nlets++
		sort := "Int"
		if n.S.K == SBool {
			sort = "Bool"
		}
		fmt.Fprintf(&body, "(define-fun %s () %s %s)\n", name, sort, ex)
		r.names[n] = name
	}
	for _, t := range pc {
		fmt.Fprintf(&body, "(assert %s)\n", r.e(t))
	}
	if r.fail != "" {
		return r.fail, false
	}
	var sb strings.Builder
	for name, v := range r.vars {
		if v.S.K == SBool {
			fmt.Fprintf(&sb, "(declare-const %s Bool)\n", name)
		} else {
			fmt.Fprintf(&sb, "(declare-const %s_i Int)\n(assert (and (<= 0 %s_i) (< %s_i %s)))\n", name, name, name, pow2(v.S.W))
		}
	}
	sb.WriteString(body.String())
	sb.WriteString("(check-sat)\n")
	if len(vars) > 0 {
		sb.WriteString("(get-value (")
		for _, v := range vars {
			if v.S.K == SBool {
				sb.WriteString(v.Name + " ")
			} else {
				sb.WriteString(v.Name + "_i ")
			}
		}
		sb.WriteString("))\n")
	}
	return sb.String(), true
}
