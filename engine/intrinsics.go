package main

import (
	"fmt"
	"go/types"
	"path/filepath"
	"strings"

	"golang.org/x/tools/go/ssa"
)

type intrinsicFn func(ex *Exec, fn *ssa.Function, a []Value) Value

var intrinsics = map[string]intrinsicFn{}

const hpath = "github.com/vogo/gohessian."

func (ex *Exec) argName(v Value) string {
	s, ok := v.(*StrV).Concrete()
	if !ok {
		ex.unsupported("harness name argument must be a constant string")
	}
	return s
}

func (ex *Exec) errorsNew(msg string) Value {
	f := ex.prog.ImportedPackage("errors").Func("New")
	return ex.call(f, []Value{strConst(msg)}, nil)
}

func init() {
	bvIn := func(name string, w int) {
		setIntrinsic(hpath+name, func(ex *Exec, fn *ssa.Function, a []Value) Value {
			r := ex.freshInput(ex.argName(a[0]), fmt.Sprintf("bv%d", w), []Sort{BV(w)})
			return r.Term[0]
		})
	}
	bvIn("vInt8", 8)
	bvIn("vUint8", 8)
	bvIn("vInt16", 16)
	bvIn("vUint16", 16)
	bvIn("vInt32", 32)
	bvIn("vUint32", 32)
	bvIn("vRune", 32)
	bvIn("vInt64", 64)
	bvIn("vUint64", 64)
	bvIn("vInt", 64)
	bvIn("vUint", 64)
	setIntrinsic(hpath+"vBool", func(ex *Exec, fn *ssa.Function, a []Value) Value {
		r := ex.freshInput(ex.argName(a[0]), "bool", []Sort{BoolSort})
		return r.Term[0]
	})
	setIntrinsic(hpath+"vFloat64", func(ex *Exec, fn *ssa.Function, a []Value) Value {
		r := ex.freshInput(ex.argName(a[0]), "bv64", []Sort{BV(64)})
		return FFromBits(r.Term[0])
	})
	setIntrinsic(hpath+"vFloat32", func(ex *Exec, fn *ssa.Function, a []Value) Value {
		r := ex.freshInput(ex.argName(a[0]), "bv32", []Sort{BV(32)})
		return FFromBits(r.Term[0])
	})
	setIntrinsic(hpath+"vBytes", func(ex *Exec, fn *ssa.Function, a []Value) Value {
		n := ex.concInt(a[1].(*Term))
		sorts := make([]Sort, n)
		for i := range sorts {
			sorts[i] = BV(8)
		}
		r := ex.freshInput(ex.argName(a[0]), "bytes", sorts)
		return ex.sliceFromTerms(types.Typ[types.Uint8], r.Term)
	})
	setIntrinsic(hpath+"vString", func(ex *Exec, fn *ssa.Function, a []Value) Value {
		n := ex.concInt(a[1].(*Term))
		sorts := make([]Sort, n)
		for i := range sorts {
			sorts[i] = BV(8)
		}
		r := ex.freshInput(ex.argName(a[0]), "bytes", sorts)
		return &StrV{B: append([]*Term{}, r.Term...)}
	})
	setIntrinsic(hpath+"vChoice", func(ex *Exec, fn *ssa.Function, a []Value) Value {
		n := ex.concInt(a[1].(*Term))
		c := ex.choice(n)
		name := ex.argName(a[0])
		k := ex.nameCount[name]
		ex.nameCount[name] = k + 1
		ex.inputs = append(ex.inputs, &InputRec{Name: fmt.Sprintf("%s#%d", name, k), Kind: "choice", Val: []uint64{uint64(c)}})
		return i64(int64(c))
	})
	setIntrinsic(hpath+"vAssume", func(ex *Exec, fn *ssa.Function, a []Value) Value {
		ex.assume(a[0].(*Term))
		return nil
	})
	setIntrinsic(hpath+"vAssert", func(ex *Exec, fn *ssa.Function, a []Value) Value {
		ex.vassert(ex.argName(a[0]), a[1].(*Term))
		return nil
	})
	setIntrinsic(hpath+"vKnown", func(ex *Exec, fn *ssa.Function, a []Value) Value {
		id := ex.argName(a[0])
		region := a[1].(*Term)
		ex.W.noteKnownID(id)
		if ex.knownMode == id {
			// inside this region: keep only inputs of the region, let the assertions fire
			ex.assume(region)
			return falseT
		}
		if !ex.W.isOpenFinding(id) {
			// not listed (or listed as fixed): carve out nothing
			return falseT
		}
		// outside mode: prove the property on the complement of every listed region
		ex.assume(Not(region))
		return falseT
	})
	setIntrinsic(hpath+"vIsOpen", func(ex *Exec, fn *ssa.Function, a []Value) Value {
		id := ex.argName(a[0])
		return mkBool(ex.W.isOpenFinding(id) && ex.knownMode != id)
	})
	setIntrinsic(hpath+"vAllocBound", func(ex *Exec, fn *ssa.Function, a []Value) Value {
		ex.allocBound = int64(ex.concInt(a[0].(*Term)))
		return nil
	})
	setIntrinsic(hpath+"vAllocCheck", func(ex *Exec, fn *ssa.Function, a []Value) Value { return nil })
	setIntrinsic(hpath+"vSteps", func(ex *Exec, fn *ssa.Function, a []Value) Value {
		return i64(int64(ex.steps))
	})
	setIntrinsic(hpath+"vStepLimit", func(ex *Exec, fn *ssa.Function, a []Value) Value {
		n := ex.concInt(a[0].(*Term))
		if n <= 0 {
			ex.stepLimit = 0
		} else {
			ex.stepLimit = ex.steps + n
		}
		return nil
	})
	setIntrinsic(hpath+"vArith", func(ex *Exec, fn *ssa.Function, a []Value) Value {
		ex.arithInt = ex.concInt(a[0].(*Term)) == 1
		return nil
	})
	setIntrinsic(hpath+"vTier", func(ex *Exec, fn *ssa.Function, a []Value) Value {
		if ex.W.tier == "thorough" {
			return i64(1)
		}
		return i64(0)
	})
	setIntrinsic(hpath+"vAnd", func(ex *Exec, fn *ssa.Function, a []Value) Value { return And(a[0].(*Term), a[1].(*Term)) })
	setIntrinsic(hpath+"vOr", func(ex *Exec, fn *ssa.Function, a []Value) Value { return Or(a[0].(*Term), a[1].(*Term)) })
	setIntrinsic(hpath+"vNot", func(ex *Exec, fn *ssa.Function, a []Value) Value { return Not(a[0].(*Term)) })
	setIntrinsic(hpath+"vIte", func(ex *Exec, fn *ssa.Function, a []Value) Value {
		return Ite(a[0].(*Term), a[1].(*Term), a[2].(*Term))
	})
	setIntrinsic(hpath+"vMapOrderFixed", func(ex *Exec, fn *ssa.Function, a []Value) Value {
		if a[0].(*Term).Bool() {
			ex.fixDepth++
		} else if ex.fixDepth > 0 {
			ex.fixDepth--
		}
		ex.fixOrder = ex.fixDepth > 0
		return nil
	})
	setIntrinsic(hpath+"vRecord", func(ex *Exec, fn *ssa.Function, a []Value) Value {
		name := ex.argName(a[0])
		s := a[1].(*SliceV)
		n := ex.concInt(s.Len)
		bs := make([]byte, n)
		for k := 0; k < n; k++ {
			t := s.Arr.cell(s.Off + k).V.(*Term)
			if !t.IsConst() {
				ex.unsupported("vRecord of symbolic bytes")
			}
			bs[k] = byte(t.C)
		}
		ex.records = append(ex.records, fmt.Sprintf("%s %x", name, bs))
		return nil
	})
	setIntrinsic(hpath+"vSameState", func(ex *Exec, fn *ssa.Function, a []Value) Value {
		return ex.sameState(a[0], a[1], map[[2]interface{}]bool{}, 0)
	})
	setIntrinsic(hpath+"vSymbolic", func(ex *Exec, fn *ssa.Function, a []Value) Value { return trueT })
	setIntrinsic(hpath+"vTrace", func(ex *Exec, fn *ssa.Function, a []Value) Value {
		ex.tracing = true
		return nil
	})
	setIntrinsic(hpath+"vFreeze", func(ex *Exec, fn *ssa.Function, a []Value) Value {
		ex.freeze(a[0], ex.argName(a[1]), map[interface{}]bool{})
		return nil
	})
	setIntrinsic(hpath+"vFreezeGlobals", func(ex *Exec, fn *ssa.Function, a []Value) Value {
		label := ex.argName(a[0])
		seen := map[interface{}]bool{}
		for g, c := range ex.globals {
			if g.Pkg != nil && g.Pkg.Pkg.Path() == "github.com/vogo/gohessian" && !strings.HasPrefix(g.Name(), "init$") {
				c.RO = label
				ex.freeze(c.V, label, seen)
			}
		}
		ex.globalsFrozen = label
		return nil
	})

	// ---- stubs: formatting, logging, runtime ----
	setIntrinsic("fmt.Sprintf", func(ex *Exec, fn *ssa.Function, a []Value) Value {
		f, _ := a[0].(*StrV).Concrete()
		ex.fmtTraverse(f, a[1])
		return strConst("<fmt:" + f + ">")
	})
	setIntrinsic("fmt.Sprint", func(ex *Exec, fn *ssa.Function, a []Value) Value {
		ex.fmtTraverse("", a[0])
		return strConst("<fmt>")
	})
	setIntrinsic("fmt.Sprintln", func(ex *Exec, fn *ssa.Function, a []Value) Value {
		ex.fmtTraverse("", a[0])
		return strConst("<fmt>\n")
	})
	setIntrinsic("fmt.Errorf", func(ex *Exec, fn *ssa.Function, a []Value) Value {
		f, _ := a[0].(*StrV).Concrete()
		ex.fmtTraverse(f, a[1])
		return ex.errorsNew("<fmt:" + f + ">")
	})
	setIntrinsic("fmt.Printf", func(ex *Exec, fn *ssa.Function, a []Value) Value {
		f, _ := a[0].(*StrV).Concrete()
		ex.fmtTraverse(f, a[1])
		return TupleV{i64(0), &IfaceV{}}
	})
	for _, n := range []string{"fmt.Println", "fmt.Print"} {
		setIntrinsic(n, func(ex *Exec, fn *ssa.Function, a []Value) Value {
			ex.fmtTraverse("", a[0])
			return TupleV{i64(0), &IfaceV{}}
		})
	}
	setIntrinsic("runtime.Caller", func(ex *Exec, fn *ssa.Function, a []Value) Value {
		return TupleV{mkBV(64, 0), strConst("file.go"), i64(0), trueT}
	})
	setIntrinsic("path/filepath.Base", func(ex *Exec, fn *ssa.Function, a []Value) Value {
		s, ok := a[0].(*StrV).Concrete()
		if !ok {
			ex.unsupported("filepath.Base on symbolic string")
		}
		return strConst(filepath.Base(s))
	})
	setIntrinsic("time.Now", func(ex *Exec, fn *ssa.Function, a []Value) Value {
		return ex.zero(fn.Signature.Results().At(0).Type(), 0)
	})
	setIntrinsic("math.Float64bits", func(ex *Exec, fn *ssa.Function, a []Value) Value { return FToBits(a[0].(*Term)) })
	setIntrinsic("math.Float32bits", func(ex *Exec, fn *ssa.Function, a []Value) Value { return FToBits(a[0].(*Term)) })
	setIntrinsic("math.Float64frombits", func(ex *Exec, fn *ssa.Function, a []Value) Value { return FFromBits(a[0].(*Term)) })
	setIntrinsic("math.Float32frombits", func(ex *Exec, fn *ssa.Function, a []Value) Value { return FFromBits(a[0].(*Term)) })
	setIntrinsic("math.IsNaN", func(ex *Exec, fn *ssa.Function, a []Value) Value { return FIsNaN(a[0].(*Term)) })

	// ---- strings ----
	setIntrinsic("strings.Compare", func(ex *Exec, fn *ssa.Function, a []Value) Value {
		x, y := a[0].(*StrV), a[1].(*StrV)
		return Ite(strEq(x, y), i64(0), Ite(strLess(x, y, false), i64(-1), i64(1)))
	})
	conc2 := func(name string, f func(a, b string) Value) {
		setIntrinsic(name, func(ex *Exec, fn *ssa.Function, a []Value) Value {
			x, ok1 := a[0].(*StrV).Concrete()
			y, ok2 := a[1].(*StrV).Concrete()
			if !ok1 || !ok2 {
				// concretise: these helpers are only applied to type names and error texts
				x = ex.concString(a[0].(*StrV))
				y = ex.concString(a[1].(*StrV))
			}
			return f(x, y)
		})
	}
	conc2("strings.Contains", func(a, b string) Value { return mkBool(strings.Contains(a, b)) })
	conc2("strings.HasPrefix", func(a, b string) Value { return mkBool(strings.HasPrefix(a, b)) })
	conc2("strings.HasSuffix", func(a, b string) Value { return mkBool(strings.HasSuffix(a, b)) })
	conc2("strings.Index", func(a, b string) Value { return i64(int64(strings.Index(a, b))) })
	conc2("strings.LastIndex", func(a, b string) Value { return i64(int64(strings.LastIndex(a, b))) })
	conc2("strings.EqualFold", func(a, b string) Value { return mkBool(strings.EqualFold(a, b)) })
	conc2("strings.TrimPrefix", func(a, b string) Value { return strConst(strings.TrimPrefix(a, b)) })
	conc2("strings.TrimSuffix", func(a, b string) Value { return strConst(strings.TrimSuffix(a, b)) })
	setIntrinsic("strings.Replace", func(ex *Exec, fn *ssa.Function, a []Value) Value {
		s := ex.concString(a[0].(*StrV))
		o := ex.concString(a[1].(*StrV))
		n := ex.concString(a[2].(*StrV))
		k := ex.concInt(a[3].(*Term))
		return strConst(strings.Replace(s, o, n, k))
	})
	setIntrinsic("strings.ReplaceAll", func(ex *Exec, fn *ssa.Function, a []Value) Value {
		s := ex.concString(a[0].(*StrV))
		o := ex.concString(a[1].(*StrV))
		n := ex.concString(a[2].(*StrV))
		return strConst(strings.ReplaceAll(s, o, n))
	})
	setIntrinsic("strings.ToLower", func(ex *Exec, fn *ssa.Function, a []Value) Value {
		return strConst(strings.ToLower(ex.concString(a[0].(*StrV))))
	})
	setIntrinsic("strings.ToUpper", func(ex *Exec, fn *ssa.Function, a []Value) Value {
		return strConst(strings.ToUpper(ex.concString(a[0].(*StrV))))
	})
	setIntrinsic("internal/bytealg.IndexByte", func(ex *Exec, fn *ssa.Function, a []Value) Value {
		s := a[0].(*SliceV)
		n := ex.concInt(s.Len)
		c := a[1].(*Term)
		for i := 0; i < n; i++ {
			if ex.branch(Eq(s.Arr.cell(s.Off+i).V.(*Term), c)) {
				return i64(int64(i))
			}
		}
		return i64(-1)
	})
	setIntrinsic("internal/bytealg.IndexByteString", func(ex *Exec, fn *ssa.Function, a []Value) Value {
		s := a[0].(*StrV)
		c := a[1].(*Term)
		for i := range s.B {
			if ex.branch(Eq(s.B[i], c)) {
				return i64(int64(i))
			}
		}
		return i64(-1)
	})
	setIntrinsic("internal/bytealg.CountString", func(ex *Exec, fn *ssa.Function, a []Value) Value {
		s := a[0].(*StrV)
		c := a[1].(*Term)
		n := 0
		for i := range s.B {
			if ex.branch(Eq(s.B[i], c)) {
				n++
			}
		}
		return i64(int64(n))
	})
	setIntrinsic("internal/bytealg.Count", func(ex *Exec, fn *ssa.Function, a []Value) Value {
		s := a[0].(*SliceV)
		c := a[1].(*Term)
		n := 0
		for i, m := 0, ex.concInt(s.Len); i < m; i++ {
			if ex.branch(Eq(s.Arr.cell(s.Off+i).V.(*Term), c)) {
				n++
			}
		}
		return i64(int64(n))
	})
	setIntrinsic("internal/bytealg.MakeNoZero", func(ex *Exec, fn *ssa.Function, a []Value) Value {
		n := a[0].(*Term)
		return ex.makeSlice(types.Typ[types.Uint8], n, n)
	})
	setIntrinsic("internal/bytealg.Equal", func(ex *Exec, fn *ssa.Function, a []Value) Value {
		x, y := a[0].(*SliceV), a[1].(*SliceV)
		nx, ny := ex.concInt(x.Len), ex.concInt(y.Len)
		if nx != ny {
			return falseT
		}
		acc := trueT
		for i := 0; i < nx; i++ {
			acc = And(acc, Eq(x.Arr.cell(x.Off+i).V.(*Term), y.Arr.cell(y.Off+i).V.(*Term)))
		}
		return acc
	})
	// sync.Map: a synchronised container. Modelled as an interface-keyed map beside the struct (its own code is
	// lock-free pointer juggling through sync/atomic and unsafe); its operations are synchronised, so they are
	// not stores to shared memory in the sense of C12 - whether results depend on what another caller put there
	// is for the behavioural harnesses to decide.
	anyT := types.NewInterfaceType(nil, nil).Complete()
	syncMapOf := func(ex *Exec, recv Value) *MapV {
		p, ok := recv.(*PtrV)
		if !ok || p.P == nil {
			ex.gopanic("runtime error: invalid memory address or nil pointer dereference")
		}
		if ex.syncMaps == nil {
			ex.syncMaps = map[*Cell]*MapV{}
		}
		m := ex.syncMaps[p.P]
		if m == nil {
			m = &MapV{KT: anyT, VT: anyT, Addr: ex.alloc(48)}
			ex.syncMaps[p.P] = m
		}
		return m
	}
	setIntrinsic("(*sync.Map).Load", func(ex *Exec, fn *ssa.Function, a []Value) Value {
		m := syncMapOf(ex, a[0])
		ex.hashable(a[1])
		if e := ex.mapFind(m, a[1]); e != nil {
			return TupleV{ex.copyVal(e.C.V), trueT}
		}
		return TupleV{&IfaceV{}, falseT}
	})
	setIntrinsic("(*sync.Map).Store", func(ex *Exec, fn *ssa.Function, a []Value) Value {
		m := syncMapOf(ex, a[0])
		ex.hashable(a[1])
		ex.mapUpdate(m, a[1], a[2])
		return nil
	})
	setIntrinsic("(*sync.Map).LoadOrStore", func(ex *Exec, fn *ssa.Function, a []Value) Value {
		m := syncMapOf(ex, a[0])
		ex.hashable(a[1])
		if e := ex.mapFind(m, a[1]); e != nil {
			return TupleV{ex.copyVal(e.C.V), trueT}
		}
		ex.mapUpdate(m, a[1], a[2])
		return TupleV{a[2], falseT}
	})
	setIntrinsic("(*sync.Map).Delete", func(ex *Exec, fn *ssa.Function, a []Value) Value {
		m := syncMapOf(ex, a[0])
		ex.hashable(a[1])
		ex.mapDelete(m, a[1])
		return nil
	})
	// sync.Once: the function runs on the first Do of that Once and never again (its own code spins on sync/atomic)
	setIntrinsic("(*sync.Once).Do", func(ex *Exec, fn *ssa.Function, a []Value) Value {
		p, ok := a[0].(*PtrV)
		if !ok || p.P == nil {
			ex.gopanic("runtime error: invalid memory address or nil pointer dereference")
		}
		if ex.onceDone == nil {
			ex.onceDone = map[*Cell]bool{}
		}
		if !ex.onceDone[p.P] {
			ex.onceDone[p.P] = true // as sync.Once: a Do that panics or blocks still counts as done
			ex.callValue(a[1], nil)
		}
		return nil
	})
	// sync primitives used by stdlib on single-threaded paths
	for _, n := range []string{"(*sync.Mutex).Lock", "(*sync.Mutex).Unlock", "(*sync.RWMutex).Lock", "(*sync.RWMutex).Unlock",
		"(*sync.RWMutex).RLock", "(*sync.RWMutex).RUnlock", "runtime.KeepAlive", "runtime.GC", "runtime.Gosched"} {
		setIntrinsic(n, func(ex *Exec, fn *ssa.Function, a []Value) Value { return nil })
	}
}

// freeze marks everything reachable from v as read-only.
func (ex *Exec) freeze(v Value, label string, seen map[interface{}]bool) {
	switch x := v.(type) {
	case *PtrV:
		if x.P == nil || seen[x.P] {
			return
		}
		seen[x.P] = true
		x.P.RO = label
		ex.freeze(x.P.V, label, seen)
	case *StructV:
		for _, c := range x.F {
			c.RO = label
			ex.freeze(c.V, label, seen)
		}
	case *ArrV:
		if seen[x] {
			return
		}
		seen[x] = true
		x.RO = label
		for _, c := range x.C {
			c.RO = label
			ex.freeze(c.V, label, seen)
		}
	case *SliceV:
		if x.Arr == nil || seen[x.Arr] {
			return
		}
		seen[x.Arr] = true
		x.Arr.RO = label
		n, ok := constInt(x.Cap)
		if !ok {
			n = len(x.Arr.C) - x.Off
		}
		for i := 0; i < n; i++ {
			c := x.Arr.cell(x.Off + i)
			c.RO = label
			ex.freeze(c.V, label, seen)
		}
	case *IfaceV:
		if x.T != nil {
			ex.freeze(x.V, label, seen)
		}
	case *MapV:
		if x == nil || seen[x] {
			return
		}
		seen[x] = true
		x.RO = label
		for _, e := range x.E {
			e.C.RO = label
			ex.freeze(e.K, label, seen)
			ex.freeze(e.C.V, label, seen)
		}
	case *RV:
		if x.P != nil && !seen[x.P] {
			seen[x.P] = true
			x.P.RO = label
			ex.freeze(x.P.V, label, seen)
		} else if x.P == nil {
			ex.freeze(x.V, label, seen)
		}
	case *ClosureV:
		if x != nil {
			for _, e := range x.Env {
				ex.freeze(e, label, seen)
			}
		}
	}
}

// invokeIntrinsic handles interface method calls on modelled receivers.
func (ex *Exec) invokeIntrinsic(recv *IfaceV, m *types.Func, args []Value) (Value, bool) {
	if m.Pkg() != nil && m.Pkg().Path() == "github.com/vogo/logger" {
		return nil, true
	}
	if recv.T == nil {
		return nil, false
	}
	if rt, ok := recv.V.(*RTV); ok {
		if r, ok := ex.rtMethod(rt.T, m.Name(), args); ok {
			return r, true
		}
		ex.unsupported("reflect.Type.%s is not modelled", m.Name())
	}
	return nil, false
}

// nativeCall: functions without SSA bodies that have no model.
func (ex *Exec) nativeCall(fn *ssa.Function, args []Value) (Value, bool) {
	return nil, false
}

// fmtTraverse: formatting itself is stubbed, but fmt walks its operands, and it does not detect cycles through
// slices, maps and interfaces: formatting a self-containing value recurses until the runtime dies with a stack
// overflow that no recover() can catch. The walk below follows what %v (and the other value verbs) would visit.
func (ex *Exec) fmtTraverse(format string, args Value) {
	s, ok := args.(*SliceV)
	if !ok || s.Arr == nil {
		return
	}
	n, ok := constInt(s.Len)
	if !ok {
		return
	}
	// verbs in order of appearance ("" = a Print-style call: every operand is formatted by value)
	var verbs []byte
	for k := 0; k < len(format); k++ {
		if format[k] != '%' {
			continue
		}
		k++
		for k < len(format) && strings.IndexByte("+-# 0123456789.*[]", format[k]) >= 0 {
			k++
		}
		if k < len(format) && format[k] != '%' {
			verbs = append(verbs, format[k])
		}
	}
	for a := 0; a < n; a++ {
		if format != "" {
			if a >= len(verbs) {
				break
			}
			if verbs[a] == 'T' || verbs[a] == 'p' || verbs[a] == 't' || verbs[a] == 'c' {
				continue
			}
		}
		ex.fmtWalk(s.Arr.cell(s.Off+a).V, 0)
	}
}

func (ex *Exec) fmtWalk(v Value, depth int) {
	if depth > 120 {
		ex.fail("nopanic", "fmt is asked to format a value that contains itself (through a slice, map or interface): it recurses without end and the process dies with a stack overflow")
	}
	switch x := v.(type) {
	case *IfaceV:
		if x.T != nil {
			// an error or Stringer formats itself; its operands were formatted when it was built
			if types.Implements(x.T, errorIface) {
				return
			}
			ex.fmtWalk(x.V, depth+1)
		}
	case *RV:
		if x.T != nil {
			ex.fmtWalk(x.val(), depth+1)
		}
	case *PtrV:
		if depth <= 1 && x.P != nil {
			switch x.P.V.(type) {
			case *StructV, *ArrV, *SliceV, *MapV:
				ex.fmtWalk(x.P.V, depth+1)
			}
		}
	case *StructV:
		for _, c := range x.F {
			ex.fmtWalk(c.V, depth+1)
		}
	case *SliceV:
		if x.Arr == nil {
			return
		}
		n, ok := constInt(x.Len)
		if !ok {
			return
		}
		for k := 0; k < n && k < 64; k++ {
			ex.fmtWalk(x.Arr.cell(x.Off+k).V, depth+1)
		}
	case *ArrV:
		n, _ := constInt(x.N)
		for k := 0; k < n && k < 64; k++ {
			ex.fmtWalk(x.cell(k).V, depth+1)
		}
	case *MapV:
		if x != nil {
			for _, e := range x.E {
				ex.fmtWalk(e.K, depth+1)
				ex.fmtWalk(e.C.V, depth+1)
			}
		}
	}
}

var errorIface = types.Universe.Lookup("error").Type().Underlying().(*types.Interface)

// sameState: structural equality of two object graphs, every field included (exported or not): scalars by value,
// strings, slices element-wise (nil and empty are different, as for reflect.DeepEqual), maps entry-wise, pointers
// by the equality of what they point to, interface values by dynamic type and value.
func (ex *Exec) sameState(a, b Value, seen map[[2]interface{}]bool, depth int) *Term {
	if depth > 60 {
		return trueT
	}
	switch x := a.(type) {
	case nil:
		return mkBool(b == nil)
	case *Term:
		y, ok := b.(*Term)
		if !ok || x.S != y.S {
			return falseT
		}
		if x.S.K == SFP {
			return Eq(FToBits(x), FToBits(y))
		}
		return Eq(x, y)
	case *StrV:
		y, ok := b.(*StrV)
		if !ok {
			return falseT
		}
		return strEq(x, y)
	case *PtrV:
		y, ok := b.(*PtrV)
		if !ok {
			return falseT
		}
		if x.P == nil || y.P == nil {
			return mkBool(x.P == nil && y.P == nil)
		}
		if x.P == y.P {
			return trueT
		}
		k := [2]interface{}{x.P, y.P}
		if seen[k] {
			return trueT
		}
		seen[k] = true
		return ex.sameState(x.P.V, y.P.V, seen, depth+1)
	case *StructV:
		y, ok := b.(*StructV)
		if !ok || len(x.F) != len(y.F) {
			return falseT
		}
		acc := trueT
		for i := range x.F {
			acc = And(acc, ex.sameState(x.F[i].V, y.F[i].V, seen, depth+1))
		}
		return acc
	case *ArrV:
		y, ok := b.(*ArrV)
		if !ok {
			return falseT
		}
		n, _ := constInt(x.N)
		m, _ := constInt(y.N)
		if n != m {
			return falseT
		}
		acc := trueT
		for i := 0; i < n; i++ {
			acc = And(acc, ex.sameState(x.cell(i).V, y.cell(i).V, seen, depth+1))
		}
		return acc
	case *SliceV:
		y, ok := b.(*SliceV)
		if !ok || (x.Arr == nil) != (y.Arr == nil) {
			return falseT
		}
		if x.Arr == nil {
			return trueT
		}
		n, ok1 := constInt(x.Len)
		m, ok2 := constInt(y.Len)
		if !ok1 || !ok2 || n != m {
			return falseT
		}
		acc := trueT
		for i := 0; i < n; i++ {
			acc = And(acc, ex.sameState(x.Arr.cell(x.Off+i).V, y.Arr.cell(y.Off+i).V, seen, depth+1))
		}
		return acc
	case *IfaceV:
		y, ok := b.(*IfaceV)
		if !ok || (x.T == nil) != (y.T == nil) {
			return falseT
		}
		if x.T == nil {
			return trueT
		}
		xr, ok1 := x.V.(*RTV)
		yr, ok2 := y.V.(*RTV)
		if ok1 || ok2 {
			return mkBool(ok1 && ok2 && types.Identical(xr.T, yr.T))
		}
		if !types.Identical(x.T, y.T) {
			return falseT
		}
		return ex.sameState(x.V, y.V, seen, depth+1)
	case *MapV:
		y, ok := b.(*MapV)
		if !ok || (x == nil) != (y == nil) {
			return falseT
		}
		if x == nil || x == y {
			return trueT
		}
		if len(x.E) != len(y.E) {
			return falseT
		}
		acc := trueT
		for _, e := range x.E {
			var f *MapEntry
			for _, c := range y.E {
				if ke := ex.keyEq(c.K, e.K); ke.IsConst() && ke.Bool() {
					f = c
				}
			}
			if f == nil {
				return falseT
			}
			acc = And(acc, ex.sameState(e.C.V, f.C.V, seen, depth+1))
		}
		return acc
	case *RV:
		y, ok := b.(*RV)
		if !ok || (x.T == nil) != (y.T == nil) {
			return falseT
		}
		if x.T == nil {
			return trueT
		}
		return And(mkBool(types.Identical(x.T, y.T)), ex.sameState(x.val(), y.val(), seen, depth+1))
	case *ChanV:
		y, ok := b.(*ChanV)
		return mkBool(ok && x == y)
	case *ClosureV:
		y, ok := b.(*ClosureV)
		return mkBool(ok && (x == nil) == (y == nil))
	}
	return mkBool(a == b)
}
