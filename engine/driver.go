package main

import (
	"encoding/json"
	"fmt"
	"go/types"
	"os"
	"path/filepath"
	"runtime/debug"
	"sort"
	"strings"
	"sync"
	"time"

	"golang.org/x/tools/go/packages"
	"golang.org/x/tools/go/ssa"
	"golang.org/x/tools/go/ssa/ssautil"
)

type Finding struct {
	Status    string   `json:"status"` // "open" or "fixed"
	Property  string   `json:"property"`
	ID        string   `json:"id"`
	What      string   `json:"what"`
	Witness   string   `json:"witness,omitempty"`
	Commit    string   `json:"commit,omitempty"`
	Harnesses []string `json:"harnesses,omitempty"`
}

type World struct {
	prog          *ssa.Program
	hpkg          *ssa.Package
	sizes         types.Sizes
	rtypePtr      types.Type
	reflectValueT types.Type
	structFieldT  types.Type
	harnessDir    string
	repoDir       string
	workDir       string
	tier          string
	workers       int
	timeoutMs     int
	crossCheck    bool
	crossBudget   int
	crossDone     int
	crossDisagree []string
	fixedMapOrder bool
	findings      []Finding
	mu            sync.Mutex
	knownSeen     map[string]bool
	maxPaths      int
	stepBudget    int
	verbose       bool
	maxViol       int
	loadTime      time.Duration
}

func (w *World) noteKnownID(id string) {
	w.mu.Lock()
	w.knownSeen[id] = true
	w.mu.Unlock()
}

func (w *World) isOpenFinding(id string) bool {
	for _, f := range w.findings {
		if f.ID == id && f.Status == "open" {
			return true
		}
	}
	return false
}

func (w *World) finding(id string) *Finding {
	for i := range w.findings {
		if w.findings[i].ID == id {
			return &w.findings[i]
		}
	}
	return nil
}

func loadWorld(repoDir, harnessDir string) (*World, error) {
	t0 := time.Now()
	overlay := map[string][]byte{}
	files, _ := filepath.Glob(filepath.Join(harnessDir, "*.go"))
	for _, f := range files {
		if strings.HasSuffix(f, "_test.go") {
			continue
		}
		b, err := os.ReadFile(f)
		if err != nil {
			return nil, err
		}
		overlay[filepath.Join(repoDir, "zz_verif_"+filepath.Base(f))] = b
	}
	cfg := &packages.Config{Mode: packages.LoadAllSyntax, Dir: repoDir, BuildFlags: []string{"-tags=verif"}, Overlay: overlay,
		Env: append(os.Environ(), "GOFLAGS=-mod=mod", "GOPROXY=off", "GOSUMDB=off", "GOTOOLCHAIN=local")}
	pkgs, err := packages.Load(cfg, ".")
	if err != nil {
		return nil, err
	}
	nerr := 0
	packages.Visit(pkgs, nil, func(p *packages.Package) {
		for _, e := range p.Errors {
			if nerr < 20 {
				fmt.Fprintln(os.Stderr, "load error:", e)
			}
			nerr++
		}
	})
	if nerr > 0 {
		return nil, fmt.Errorf("%d package load errors (does /repo still compile with the harness overlay?)", nerr)
	}
	prog, spkgs := ssautil.AllPackages(pkgs, ssa.InstantiateGenerics)
	prog.Build()
	w := &World{prog: prog, hpkg: spkgs[0], harnessDir: harnessDir, repoDir: repoDir, knownSeen: map[string]bool{}}
	w.sizes = types.SizesFor("gc", "amd64")
	rp := prog.ImportedPackage("reflect")
	if rp == nil {
		return nil, fmt.Errorf("reflect not loaded")
	}
	w.rtypePtr = types.NewPointer(rp.Pkg.Scope().Lookup("rtype").Type())
	w.reflectValueT = rp.Pkg.Scope().Lookup("Value").Type()
	w.structFieldT = rp.Pkg.Scope().Lookup("StructField").Type()
	w.loadTime = time.Since(t0)
	return w, nil
}

func (w *World) harnesses(prefix string) []string {
	var out []string
	for name, m := range w.hpkg.Members {
		if _, ok := m.(*ssa.Function); ok && strings.HasPrefix(name, prefix) {
			out = append(out, name)
		}
	}
	sort.Strings(out)
	return out
}

func (w *World) portfolio(ex *Exec, extra *Term) Verdict {
	if extra == nil {
		extra = trueT
	}
	conj, _ := ex.slice(extra)
	script := bvScriptOf(conj, nil)
	for _, alt := range []string{"z3-new", "cvc5", "cvc5-int"} {
		v := RunScript(alt, script, w.timeoutMs*3)
		if v != Unknown {
			return v
		}
	}
	return Unknown
}

func (w *World) cross(ex *Exec, negated *Term, id string) {
	w.mu.Lock()
	if w.crossDone >= w.crossBudget {
		w.mu.Unlock()
		return
	}
	w.crossDone++
	w.mu.Unlock()
	conj, _ := ex.slice(negated)
	script := bvScriptOf(conj, nil)
	alt := "cvc5"
	if strings.Contains(script, "FloatingPoint") || strings.Contains(script, "fp.") {
		alt = "z3-new"
	}
	v := RunScript(alt, script, w.timeoutMs*3)
	if v == Sat {
		w.mu.Lock()
		w.crossDisagree = append(w.crossDisagree, ex.curHarness+"/"+id+": z3 unsat but "+alt+" sat")
		w.mu.Unlock()
	}
}

// ---------- per-harness exploration ----------

type PathStat struct {
	Kind      string
	Msg       string
	Steps     int
	Asserts   int
	AssertSym int
	Sym       bool
}

type HarnessResult struct {
	Name        string
	Mode        string
	Paths       int
	Kinds       map[string]int
	Asserts     int
	AssertSym   int
	SymPaths    int
	Violations  []*Violation
	Unknowns    []string
	Unsupported map[string]int
	Panics      map[string]int
	Budget      []string
	Funcs       map[string]bool
	Intr        map[string]bool
	Solver      SolverStats
	Wall        time.Duration
	Incomplete  string
	Witness     int
	Samples     []map[string]interface{}
	MaxSteps    int
	Pruned      int
	Records     []string
}

type task struct{ prefix []*Decision }

type explorer struct {
	w       *World
	fn      *ssa.Function
	mode    string
	mu      sync.Mutex
	cond    *sync.Cond
	queue   []*task
	idle    int
	nwork   int
	done    bool
	res     *HarnessResult
	stop    bool
	maxViol int
	deadline time.Time
}

func (w *World) newExec() *Exec {
	ex := &Exec{prog: w.prog, hpkg: w.hpkg, sizes: w.sizes, W: w}
	ex.solver = NewSolver("z3", w.timeoutMs)
	ex.budget = w.stepBudget
	ex.maxDepth = 400
	ex.funcsSeen = map[string]bool{}
	ex.intrSeen = map[string]bool{}
	return ex
}

func (w *World) runHarness(name string, mode string, wallBudget time.Duration) *HarnessResult {
	fn := w.hpkg.Func(name)
	res := &HarnessResult{Name: name, Mode: mode, Kinds: map[string]int{}, Unsupported: map[string]int{}, Panics: map[string]int{},
		Funcs: map[string]bool{}, Intr: map[string]bool{}}
	e := &explorer{w: w, fn: fn, mode: mode, res: res, maxViol: 3, nwork: w.workers}
	if w.maxViol > 0 {
		e.maxViol = w.maxViol
	}
	e.cond = sync.NewCond(&e.mu)
	e.queue = []*task{{}}
	e.deadline = time.Now().Add(wallBudget)
	t0 := time.Now()
	var wg sync.WaitGroup
	for i := 0; i < w.workers; i++ {
		wg.Add(1)
		go func() {
			defer wg.Done()
			e.worker()
		}()
	}
	wg.Wait()
	res.Wall = time.Since(t0)
	return res
}

func (e *explorer) take() *task {
	e.mu.Lock()
	defer e.mu.Unlock()
	for {
		if e.stop || e.done {
			return nil
		}
		if len(e.queue) > 0 {
			t := e.queue[len(e.queue)-1]
			e.queue = e.queue[:len(e.queue)-1]
			return t
		}
		e.idle++
		if e.idle == e.nwork {
			e.done = true
			e.cond.Broadcast()
			return nil
		}
		e.cond.Wait()
		e.idle--
	}
}

func cloneDecision(d *Decision) *Decision { c := *d; return &c }

// donate splits off the shallowest open alternative(s) of the trail as new tasks.
func (e *explorer) donate(trail []*Decision, frozen int) {
	e.mu.Lock()
	defer e.mu.Unlock()
	if e.idle == 0 || len(e.queue) > 0 {
		return
	}
	for i := frozen; i < len(trail); i++ {
		d := trail[i]
		if !d.AltOpen {
			continue
		}
		mk := func(nd *Decision) {
			p := make([]*Decision, 0, i+1)
			for _, x := range trail[:i] {
				c := cloneDecision(x)
				c.AltOpen = false
				c.Frozen = true
				p = append(p, c)
			}
			nd.AltOpen = false
			nd.Frozen = true
			p = append(p, nd)
			e.queue = append(e.queue, &task{prefix: p})
		}
		switch d.Kind {
		case 'b', 'v':
			nd := cloneDecision(d)
			nd.Taken = !d.Taken
			nd.Unchecked = !d.AltChecked
			if d.AltChecked {
				nd.M = d.AltM
			}
			mk(nd)
		case 'c':
			for c := d.Choice + 1; c < d.N; c++ {
				nd := cloneDecision(d)
				nd.Choice = c
				mk(nd)
			}
		}
		d.AltOpen = false
		e.cond.Broadcast()
		return
	}
}

func (e *explorer) worker() {
	ex := e.w.newExec()
	defer ex.solver.Close()
	ex.knownMode = e.mode
	ex.curHarness = e.fn.Name()
	for {
		t := e.take()
		if t == nil {
			break
		}
		ex.trail = t.prefix
		frozen := len(t.prefix)
		ex.startModel = nil
		if frozen > 0 {
			ex.startModel = t.prefix[frozen-1].M
		}
		for {
			ps := ex.runPath(e.fn)
			e.record(ex, ps)
			if e.shouldStop() {
				break
			}
			// backtrack
			i := len(ex.trail) - 1
			for i >= frozen && !ex.trail[i].AltOpen {
				i--
			}
			if i < frozen {
				break
			}
			d := ex.trail[i]
			switch d.Kind {
			case 'b', 'v':
				d.Taken = !d.Taken
				d.AltOpen = false
				d.Unchecked = !d.AltChecked
			case 'c':
				d.Choice++
				d.AltOpen = d.Choice < d.N-1
			}
			ex.trail = ex.trail[:i+1]
			ex.startModel = d.M
			if d.Kind != 'c' && d.AltChecked {
				ex.startModel = d.AltM
			}
			e.donate(ex.trail, frozen)
		}
		if e.shouldStop() {
			break
		}
	}
	e.mu.Lock()
	st := ex.solver.Stats
	e.res.Solver.Sat += st.Sat
	e.res.Solver.Unsat += st.Unsat
	e.res.Solver.Unknown += st.Unknown
	e.res.Solver.Errors += st.Errors
	e.res.Solver.Queries += st.Queries
	e.res.Solver.Time += st.Time
	e.res.Solver.OneShot += st.OneShot
	for k := range ex.funcsSeen {
		e.res.Funcs[k] = true
	}
	for k := range ex.intrSeen {
		e.res.Intr[k] = true
	}
	e.mu.Unlock()
}

func (e *explorer) shouldStop() bool {
	e.mu.Lock()
	defer e.mu.Unlock()
	if e.stop {
		return true
	}
	if len(e.res.Violations) >= e.maxViol {
		e.stop = true
	}
	if e.w.maxPaths > 0 && e.res.Paths >= e.w.maxPaths {
		e.res.Incomplete = fmt.Sprintf("path limit %d reached", e.w.maxPaths)
		e.stop = true
	}
	if time.Now().After(e.deadline) {
		e.res.Incomplete = "wall-clock budget for this harness exhausted"
		e.stop = true
	}
	if e.stop {
		e.cond.Broadcast()
	}
	return e.stop
}

func (e *explorer) record(ex *Exec, ps PathStat) {
	e.mu.Lock()
	defer e.mu.Unlock()
	r := e.res
	if ps.Kind == "infeasible" {
		r.Pruned++
		if e.w.verbose && r.Pruned%200 == 0 {
			fmt.Fprintf(os.Stderr, "  .. %s: %d paths %v pruned=%d steps=%d trail=%d\n", r.Name, r.Paths, r.Kinds, r.Pruned, ps.Steps, len(ex.trail))
		}
		return
	}
	r.Paths++
	r.Kinds[ps.Kind]++
	if os.Getenv("VERIF_PATHLOG") != "" {
		sig := ""
		for _, dd := range ex.trail {
			switch dd.Kind {
			case 'b':
				if dd.AltOpen || dd.AltChecked {
					if dd.Taken {
						sig += "T"
					} else {
						sig += "F"
					}
				}
			case 'c':
				sig += fmt.Sprintf("<%d>", dd.Choice)
			case 'v':
				sig += fmt.Sprintf("[%x%v]", dd.Val, dd.Taken)
			}
		}
		fmt.Fprintf(os.Stderr, "PATH %s %s\n", ps.Kind, sig)
	}
	if e.w.verbose && r.Paths%200 == 0 {
		nb, nc, nv := 0, 0, 0
		desc := ""
		wh := map[string]int{}
		defer func() { fmt.Fprintf(os.Stderr, "     where: %v\n", wh) }()
		for _, dd := range ex.trail {
			switch dd.Kind {
			case 'b':
				wh[dd.Where]++
				nb++
			case 'c':
				nc++
				desc += fmt.Sprintf("%d/%d ", dd.Choice, dd.N)
			case 'v':
				nv++
			}
		}
		fmt.Fprintf(os.Stderr, "     trail: branches=%d choices=%d picks=%d [%s]\n", nb, nc, nv, desc)
		fmt.Fprintf(os.Stderr, "  .. %s: %d paths %v pruned=%d\n", r.Name, r.Paths, r.Kinds, r.Pruned)
	}
	r.Asserts += ps.Asserts
	r.AssertSym += ps.AssertSym
	if ps.Sym && ps.Asserts > 0 {
		r.SymPaths++
	}
	if ps.Steps > r.MaxSteps {
		r.MaxSteps = ps.Steps
	}
	if len(ex.records) > 0 && r.Records == nil {
		r.Records = append([]string{}, ex.records...)
	}
	switch ps.Kind {
	case "violation", "panic":
		if ex.violation != nil {
			r.Violations = append(r.Violations, ex.violation)
		}
		if ps.Kind == "panic" {
			r.Panics[ps.Msg]++
		}
	case "unsupported", "engine-error":
		r.Unsupported[ps.Msg]++
	case "unknown":
		r.Unknowns = append(r.Unknowns, ex.unknowns...)
	case "budget":
		if len(r.Budget) < 5 {
			r.Budget = append(r.Budget, ps.Msg)
		}
	case "done":
		if ps.Asserts > 0 && ps.Sym && r.Witness < 3 {
			// reachability witness: the path condition of a path that reached its assertions is satisfiable
			if v, _ := ex.solve(nil, nil); v == Sat {
				r.Witness++
			}
		} else if ps.Asserts > 0 && !ps.Sym {
			r.Witness++
		}
	}
	if len(r.Samples) < 4 && (ps.Kind == "done" || ps.Kind == "violation") && ps.Asserts > 0 {
		s := map[string]interface{}{"harness": r.Name, "end": ps.Kind, "steps": ps.Steps, "assertions": ps.Asserts,
			"symbolic_assertions": ps.AssertSym, "path_condition_conjuncts": len(ex.pc)}
		var ins []string
		for _, in := range ex.inputs {
			if in.Kind == "choice" {
				ins = append(ins, fmt.Sprintf("%s=%d", in.Name, in.Val[0]))
			} else {
				ins = append(ins, fmt.Sprintf("%s:%s(symbolic)", in.Name, in.Kind))
			}
		}
		if len(ins) > 12 {
			ins = append(ins[:12], "...")
		}
		s["inputs"] = ins
		r.Samples = append(r.Samples, s)
	}
}

// runPath executes the harness once along the current trail.
func (ex *Exec) runPath(fn *ssa.Function) (ps PathStat) {
	ex.resetPath()
	defer func() {
		ps.Steps = ex.steps
		ps.Asserts = ex.asserts
		ps.AssertSym = ex.assertSym
		ps.Sym = ex.pathSym
		r := recover()
		if r == nil {
			return
		}
		switch x := r.(type) {
		case pathEnd:
			ps.Kind, ps.Msg = x.kind, x.msg
			if x.kind == "blocked" && ex.violation == nil {
				func() {
					defer func() { recover() }()
					ex.fail("noblock", x.msg)
				}()
				ps.Kind = "violation"
			}
		case *goPanic:
			ps.Kind, ps.Msg = "panic", x.msg
			if ex.violation == nil {
				func() {
					defer func() { recover() }()
					ex.fail("nopanic", "uncaught panic: "+x.msg)
				}()
			}
		default:
			ps.Kind = "engine-error"
			ps.Msg = fmt.Sprintf("%v", r)
			if ex.W.verbose {
				ps.Msg += "\n" + string(debug.Stack())
			}
		}
	}()
	ex.runInit(ex.hpkg)
	ex.call(fn, nil, nil)
	ps.Kind = "done"
	return
}

// ---------- replay files ----------

type ReplayFile struct {
	Property string     `json:"property"`
	Harness  string     `json:"harness"`
	Assert   string     `json:"assert"`
	Msg      string     `json:"msg"`
	Tier     string     `json:"tier"`
	Known    string     `json:"known_finding,omitempty"`
	Inputs   []InputRec `json:"inputs"`
}

func writeJSON(path string, v interface{}) error {
	b, err := json.MarshalIndent(v, "", " ")
	if err != nil {
		return err
	}
	os.MkdirAll(filepath.Dir(path), 0o755)
	return os.WriteFile(path, append(b, '\n'), 0o644)
}
