package main

// Model of the 40-odd reflect operations gohessian uses, over the executor's own values with go/types as
// the type universe. Documented panics are modelled. Validated by the native differential self-test and
// by native replay of every counterexample.

import (
	"fmt"
	"go/types"
	"math"
	"strconv"
	"strings"

	"golang.org/x/tools/go/ssa"
)

const (
	kInvalid = iota
	kBool
	kInt
	kInt8
	kInt16
	kInt32
	kInt64
	kUint
	kUint8
	kUint16
	kUint32
	kUint64
	kUintptr
	kFloat32
	kFloat64
	kComplex64
	kComplex128
	kArray
	kChan
	kFunc
	kInterface
	kMap
	kPtr
	kSlice
	kString
	kStruct
	kUnsafePointer
)

var kindNames = []string{"invalid", "bool", "int", "int8", "int16", "int32", "int64", "uint", "uint8", "uint16", "uint32",
	"uint64", "uintptr", "float32", "float64", "complex64", "complex128", "array", "chan", "func", "interface", "map",
	"ptr", "slice", "string", "struct", "unsafe.Pointer"}

func kindOf(t types.Type) int {
	if t == nil {
		return kInvalid
	}
	switch u := under(t).(type) {
	case *types.Basic:
		switch u.Kind() {
		case types.Bool, types.UntypedBool:
			return kBool
		case types.Int, types.UntypedInt:
			return kInt
		case types.Int8:
			return kInt8
		case types.Int16:
			return kInt16
		case types.Int32, types.UntypedRune:
			return kInt32
		case types.Int64:
			return kInt64
		case types.Uint:
			return kUint
		case types.Uint8:
			return kUint8
		case types.Uint16:
			return kUint16
		case types.Uint32:
			return kUint32
		case types.Uint64:
			return kUint64
		case types.Uintptr:
			return kUintptr
		case types.Float32:
			return kFloat32
		case types.Float64, types.UntypedFloat:
			return kFloat64
		case types.Complex64:
			return kComplex64
		case types.Complex128:
			return kComplex128
		case types.String, types.UntypedString:
			return kString
		case types.UnsafePointer:
			return kUnsafePointer
		}
	case *types.Array:
		return kArray
	case *types.Chan:
		return kChan
	case *types.Signature:
		return kFunc
	case *types.Interface:
		return kInterface
	case *types.Map:
		return kMap
	case *types.Pointer:
		return kPtr
	case *types.Slice:
		return kSlice
	case *types.Struct:
		return kStruct
	}
	return kInvalid
}

func basicName(b *types.Basic) string {
	switch b.Kind() {
	case types.Uint8:
		return "uint8"
	case types.Int32:
		return "int32"
	case types.UnsafePointer:
		return "unsafe.Pointer"
	}
	return b.Name()
}

// rtypeString mirrors reflect.Type.String().
func rtypeString(t types.Type) string {
	switch u := t.(type) {
	case *types.Alias:
		return rtypeString(types.Unalias(u))
	case *types.Named:
		o := u.Obj()
		n := o.Name()
		if ta := u.TypeArgs(); ta != nil && ta.Len() > 0 {
			var as []string
			for i := 0; i < ta.Len(); i++ {
				as = append(as, rtypeString(ta.At(i)))
			}
			n += "[" + strings.Join(as, ",") + "]"
		}
		if o.Pkg() == nil {
			return n
		}
		return o.Pkg().Name() + "." + n
	case *types.Basic:
		return basicName(u)
	case *types.Pointer:
		return "*" + rtypeString(u.Elem())
	case *types.Slice:
		return "[]" + rtypeString(u.Elem())
	case *types.Array:
		return "[" + strconv.FormatInt(u.Len(), 10) + "]" + rtypeString(u.Elem())
	case *types.Map:
		return "map[" + rtypeString(u.Key()) + "]" + rtypeString(u.Elem())
	case *types.Chan:
		switch u.Dir() {
		case types.SendOnly:
			return "chan<- " + rtypeString(u.Elem())
		case types.RecvOnly:
			return "<-chan " + rtypeString(u.Elem())
		}
		return "chan " + rtypeString(u.Elem())
	case *types.Interface:
		if u.NumMethods() == 0 {
			return "interface {}"
		}
		var ms []string
		for i := 0; i < u.NumMethods(); i++ {
			m := u.Method(i)
			ms = append(ms, m.Name()+strings.TrimPrefix(rtypeString(m.Type()), "func"))
		}
		return "interface { " + strings.Join(ms, "; ") + " }"
	case *types.Struct:
		if u.NumFields() == 0 {
			return "struct {}"
		}
		var fs []string
		for i := 0; i < u.NumFields(); i++ {
			f := u.Field(i)
			if f.Embedded() {
				fs = append(fs, rtypeString(f.Type()))
			} else {
				fs = append(fs, f.Name()+" "+rtypeString(f.Type()))
			}
		}
		return "struct { " + strings.Join(fs, "; ") + " }"
	case *types.Signature:
		var ps []string
		for i := 0; i < u.Params().Len(); i++ {
			p := rtypeString(u.Params().At(i).Type())
			if u.Variadic() && i == u.Params().Len()-1 {
				p = "..." + strings.TrimPrefix(p, "[]")
			}
			ps = append(ps, p)
		}
		s := "func(" + strings.Join(ps, ", ") + ")"
		switch u.Results().Len() {
		case 0:
		case 1:
			s += " " + rtypeString(u.Results().At(0).Type())
		default:
			var rs []string
			for i := 0; i < u.Results().Len(); i++ {
				rs = append(rs, rtypeString(u.Results().At(i).Type()))
			}
			s += " (" + strings.Join(rs, ", ") + ")"
		}
		return s
	}
	return t.String()
}

func rtypeName(t types.Type) string {
	switch u := t.(type) {
	case *types.Alias:
		return rtypeName(types.Unalias(u))
	case *types.Named:
		n := u.Obj().Name()
		if ta := u.TypeArgs(); ta != nil && ta.Len() > 0 {
			var as []string
			for i := 0; i < ta.Len(); i++ {
				as = append(as, rtypeString(ta.At(i)))
			}
			n += "[" + strings.Join(as, ",") + "]"
		}
		return n
	case *types.Basic:
		return basicName(u)
	}
	return ""
}

func (ex *Exec) mkRT(t types.Type) *IfaceV {
	return &IfaceV{T: ex.W.rtypePtr, V: &RTV{T: t}}
}

func (ex *Exec) rtArg(v Value, what string) types.Type {
	iv := v.(*IfaceV)
	if iv.T == nil {
		ex.gopanic("reflect: " + what + "(nil)")
	}
	return iv.V.(*RTV).T
}

func (rv *RV) val() Value {
	if rv.P != nil {
		return rv.P.V
	}
	return rv.V
}

func (ex *Exec) rvFromIface(iv *IfaceV) *RV {
	if iv.T == nil {
		return &RV{}
	}
	return &RV{T: iv.T, V: iv.V}
}

func (ex *Exec) rpanic(method string, rv *RV) {
	k := kindOf(rv.T)
	if k == kInvalid {
		ex.gopanic("reflect: call of " + method + " on zero Value")
	}
	ex.gopanic("reflect: call of " + method + " on " + kindNames[k] + " Value")
}

func (ex *Exec) mustAssignable(method string, rv *RV) {
	if rv.T == nil {
		ex.gopanic("reflect: call of " + method + " on zero Value")
	}
	if rv.RO {
		ex.gopanic("reflect: " + method + " using value obtained using unexported field")
	}
	if !rv.CanAddr {
		ex.gopanic("reflect: " + method + " using unaddressable value")
	}
}

func (ex *Exec) mustExported(method string, rv *RV) {
	if rv.T == nil {
		ex.gopanic("reflect: call of " + method + " on zero Value")
	}
	if rv.RO {
		ex.gopanic("reflect: " + method + " using value obtained using unexported field")
	}
}

// assignTo converts x for storage in a location of type dst (reflect's Value.assignTo).
func (ex *Exec) assignTo(context string, x *RV, dst types.Type) Value {
	v := x.val()
	if types.Identical(x.T, dst) {
		return ex.copyVal(v)
	}
	if types.IsInterface(dst) {
		di := under(dst).(*types.Interface)
		if types.IsInterface(x.T) {
			iv := v.(*IfaceV)
			if iv.T == nil || di.NumMethods() == 0 || types.Implements(iv.T, di) {
				if types.AssignableTo(x.T, dst) {
					return iv
				}
			}
		} else if di.NumMethods() == 0 || types.Implements(x.T, di) {
			return &IfaceV{T: x.T, V: ex.copyVal(v)}
		}
	} else if types.AssignableTo(x.T, dst) && types.Identical(under(x.T), under(dst)) {
		// identical underlying types where at least one is not a named type
		return ex.copyVal(v)
	}
	ex.gopanic(context + ": value of type " + rtypeString(x.T) + " is not assignable to type " + rtypeString(dst))
	return nil
}

func (ex *Exec) structOffsets(st *types.Struct) []int64 {
	fs := make([]*types.Var, st.NumFields())
	for i := range fs {
		fs[i] = st.Field(i)
	}
	return ex.sizes.Offsetsof(fs)
}

func (ex *Exec) rvField(rv *RV, i int) *RV {
	st, ok := under(rv.T).(*types.Struct)
	if !ok {
		ex.rpanic("reflect.Value.Field", rv)
	}
	if i < 0 || i >= st.NumFields() {
		ex.gopanic("reflect: Field index out of range")
	}
	f := st.Field(i)
	sv := rv.val().(*StructV)
	ro := rv.RO || !f.Exported()
	if rv.P != nil {
		off := ex.structOffsets(st)[i]
		return &RV{T: f.Type(), P: sv.F[i], Addr: rv.Addr + uint64(off), CanAddr: rv.CanAddr, RO: ro}
	}
	return &RV{T: f.Type(), V: sv.F[i].V, RO: ro}
}

func (ex *Exec) rvElem(rv *RV) *RV {
	switch kindOf(rv.T) {
	case kPtr:
		p := rv.val().(*PtrV)
		if p.P == nil {
			return &RV{}
		}
		return &RV{T: under(rv.T).(*types.Pointer).Elem(), P: p.P, Addr: p.Addr, CanAddr: true, RO: rv.RO}
	case kInterface:
		iv := rv.val().(*IfaceV)
		r := ex.rvFromIface(iv)
		if r.T != nil {
			r.RO = rv.RO
		}
		return r
	}
	ex.rpanic("reflect.Value.Elem", rv)
	return nil
}

func (ex *Exec) rvLen(rv *RV) *Term {
	switch x := rv.val().(type) {
	case *SliceV:
		if kindOf(rv.T) == kSlice {
			return x.Len
		}
	case *ArrV:
		return x.N
	case *MapV:
		if x == nil {
			return i64(0)
		}
		return i64(int64(len(x.E)))
	case *StrV:
		return i64(int64(len(x.B)))
	case *ChanV:
		if x == nil {
			return i64(0)
		}
		return i64(int64(len(x.Buf)))
	}
	ex.rpanic("reflect.Value.Len", rv)
	return nil
}

func (ex *Exec) rvIndex(rv *RV, idx *Term) *RV {
	switch kindOf(rv.T) {
	case kSlice:
		s := rv.val().(*SliceV)
		if !ex.branch(BVCmp("bvult", idx, s.Len)) {
			ex.gopanic("reflect: slice index out of range")
		}
		i := ex.concInt(idx)
		et := under(rv.T).(*types.Slice).Elem()
		return &RV{T: et, P: s.Arr.cell(s.Off + i), Addr: s.Arr.Addr + uint64(int64(s.Off+i)*s.Arr.ESize), CanAddr: true, RO: rv.RO}
	case kArray:
		a := rv.val().(*ArrV)
		if !ex.branch(BVCmp("bvult", idx, a.N)) {
			ex.gopanic("reflect: array index out of range")
		}
		i := ex.concInt(idx)
		et := under(rv.T).(*types.Array).Elem()
		if rv.P != nil {
			return &RV{T: et, P: a.cell(i), Addr: rv.Addr + uint64(int64(i)*a.ESize), CanAddr: rv.CanAddr, RO: rv.RO}
		}
		return &RV{T: et, V: a.cell(i).V, RO: rv.RO}
	case kString:
		s := rv.val().(*StrV)
		if !ex.branch(BVCmp("bvult", idx, i64(int64(len(s.B))))) {
			ex.gopanic("reflect: string index out of range")
		}
		return &RV{T: types.Typ[types.Uint8], V: s.B[ex.concInt(idx)], RO: rv.RO}
	}
	ex.rpanic("reflect.Value.Index", rv)
	return nil
}

func (ex *Exec) rvPointer(rv *RV, method string) uint64 {
	switch kindOf(rv.T) {
	case kPtr, kUnsafePointer:
		return rv.val().(*PtrV).Addr
	case kSlice:
		s := rv.val().(*SliceV)
		if s.Arr == nil {
			return 0
		}
		return s.Arr.Addr + uint64(int64(s.Off)*s.Arr.ESize)
	case kMap:
		m := rv.val().(*MapV)
		if m == nil {
			return 0
		}
		return m.Addr
	case kChan:
		c := rv.val().(*ChanV)
		if c == nil {
			return 0
		}
		return c.Addr
	case kFunc:
		switch f := rv.val().(type) {
		case *ClosureV:
			if f == nil {
				return 0
			}
			return 0x4f0000
		case *ssa.Function:
			return 0x4f0000
		}
	}
	ex.rpanic(method, rv)
	return 0
}

func (ex *Exec) rvIsNil(rv *RV) bool {
	switch x := rv.val().(type) {
	case *PtrV:
		return x.P == nil
	case *SliceV:
		return x.Arr == nil
	case *MapV:
		return x == nil
	case *ChanV:
		return x == nil
	case *ClosureV:
		return x == nil
	case *IfaceV:
		return x.T == nil
	case *ssa.Function:
		return false
	}
	ex.rpanic("reflect.Value.IsNil", rv)
	return false
}

func (ex *Exec) rvInterface(rv *RV) Value {
	if rv.T == nil {
		ex.gopanic("reflect: call of reflect.Value.Interface on zero Value")
	}
	if rv.RO {
		ex.gopanic("reflect.Value.Interface: cannot return value obtained from unexported field or method")
	}
	v := rv.val()
	if kindOf(rv.T) == kInterface {
		iv := v.(*IfaceV)
		return &IfaceV{T: iv.T, V: iv.V}
	}
	return &IfaceV{T: rv.T, V: ex.copyVal(v)}
}

func (ex *Exec) mapKeyFor(context string, m *RV, k *RV) Value {
	mt := under(m.T).(*types.Map)
	ex.mustExported(context, k)
	return ex.assignTo(context, k, mt.Key())
}

func (ex *Exec) rvsSlice(rvs []*RV) *SliceV {
	vt := ex.W.reflectValueT
	arr := &ArrV{N: i64(int64(len(rvs))), ElemT: vt, ESize: 24, Addr: ex.alloc(int64(24 * len(rvs))), ex: ex}
	for _, r := range rvs {
		arr.C = append(arr.C, &Cell{V: r})
	}
	n := i64(int64(len(rvs)))
	return &SliceV{Arr: arr, Len: n, Cap: n}
}

func (ex *Exec) lookupFieldByName(rv *RV, name string) *RV {
	st, ok := under(rv.T).(*types.Struct)
	if !ok {
		ex.rpanic("reflect.Value.FieldByName", rv)
	}
	_ = st
	var pkg *types.Package
	if n, ok := rv.T.(*types.Named); ok {
		pkg = n.Obj().Pkg()
	}
	obj, index, _ := types.LookupFieldOrMethod(rv.T, false, pkg, name)
	if _, ok := obj.(*types.Var); !ok || obj == nil {
		return &RV{}
	}
	cur := rv
	for n, i := range index {
		if n > 0 && kindOf(cur.T) == kPtr {
			if ex.rvIsNil(cur) {
				ex.gopanic("reflect: indirection through nil pointer to embedded struct")
			}
			cur = ex.rvElem(cur)
		}
		cur = ex.rvField(cur, i)
	}
	return cur
}

func setIntrinsic(name string, f func(ex *Exec, fn *ssa.Function, a []Value) Value) { intrinsics[name] = f }

func init() {
	R := func(a []Value) *RV { return a[0].(*RV) }
	kindT := func(k int) *Term { return mkBV(64, uint64(k)) }

	setIntrinsic("reflect.ValueOf", func(ex *Exec, fn *ssa.Function, a []Value) Value {
		return ex.rvFromIface(a[0].(*IfaceV))
	})
	setIntrinsic("reflect.TypeOf", func(ex *Exec, fn *ssa.Function, a []Value) Value {
		iv := a[0].(*IfaceV)
		if iv.T == nil {
			return &IfaceV{}
		}
		return ex.mkRT(iv.T)
	})
	intrinsics["internal/reflectlite.TypeOf"] = intrinsics["reflect.TypeOf"]
	setIntrinsic("reflect.New", func(ex *Exec, fn *ssa.Function, a []Value) Value {
		t := ex.rtArg(a[0], "New")
		ad := ex.alloc(ex.sizeof(t))
		c := &Cell{V: ex.zero(t, ad)}
		return &RV{T: types.NewPointer(t), V: &PtrV{P: c, Addr: ad, T: t}}
	})
	setIntrinsic("reflect.Zero", func(ex *Exec, fn *ssa.Function, a []Value) Value {
		t := ex.rtArg(a[0], "Zero")
		return &RV{T: t, V: ex.zero(t, 0)}
	})
	setIntrinsic("reflect.MakeSlice", func(ex *Exec, fn *ssa.Function, a []Value) Value {
		t := ex.rtArg(a[0], "MakeSlice")
		st, ok := under(t).(*types.Slice)
		if !ok {
			ex.gopanic("reflect.MakeSlice of non-slice type")
		}
		l, c := a[1].(*Term), a[2].(*Term)
		if !ex.branch(BVCmp("bvsle", i64(0), l)) {
			ex.gopanic("reflect.MakeSlice: negative len")
		}
		if !ex.branch(BVCmp("bvsle", i64(0), c)) {
			ex.gopanic("reflect.MakeSlice: negative cap")
		}
		if !ex.branch(BVCmp("bvsle", l, c)) {
			ex.gopanic("reflect.MakeSlice: len > cap")
		}
		return &RV{T: t, V: ex.makeSlice(st.Elem(), l, c)}
	})
	setIntrinsic("reflect.MakeMap", func(ex *Exec, fn *ssa.Function, a []Value) Value {
		t := ex.rtArg(a[0], "MakeMap")
		mt, ok := under(t).(*types.Map)
		if !ok {
			ex.gopanic("reflect.MakeMapWithSize of non-map type")
		}
		return &RV{T: t, V: &MapV{KT: mt.Key(), VT: mt.Elem(), Addr: ex.alloc(48)}}
	})
	setIntrinsic("reflect.MakeMapWithSize", func(ex *Exec, fn *ssa.Function, a []Value) Value {
		t := ex.rtArg(a[0], "MakeMapWithSize")
		mt, ok := under(t).(*types.Map)
		if !ok {
			ex.gopanic("reflect.MakeMapWithSize of non-map type")
		}
		return &RV{T: t, V: &MapV{KT: mt.Key(), VT: mt.Elem(), Addr: ex.alloc(48)}}
	})
	setIntrinsic("reflect.Append", func(ex *Exec, fn *ssa.Function, a []Value) Value {
		s := R(a)
		if kindOf(s.T) != kSlice {
			ex.rpanic("reflect.Append", s)
		}
		et := under(s.T).(*types.Slice).Elem()
		xs := a[1].(*SliceV)
		n := ex.concInt(xs.Len)
		var elems []Value
		for i := 0; i < n; i++ {
			x := xs.Arr.cell(xs.Off + i).V.(*RV)
			ex.mustExported("reflect.Value.Set", x)
			elems = append(elems, ex.assignTo("reflect.Set", x, et))
		}
		sv := s.val().(*SliceV)
		if n == 0 {
			return &RV{T: s.T, V: sv}
		}
		return &RV{T: s.T, V: ex.appendVals(sv, elems, et)}
	})
	setIntrinsic("reflect.Copy", func(ex *Exec, fn *ssa.Function, a []Value) Value {
		dst, src := a[0].(*RV), a[1].(*RV)
		if kindOf(dst.T) != kSlice && kindOf(dst.T) != kArray {
			ex.rpanic("reflect.Copy", dst)
		}
		if kindOf(dst.T) == kArray {
			ex.mustAssignable("reflect.Copy", dst)
		}
		ds, ok1 := dst.val().(*SliceV)
		ss, ok2 := src.val().(*SliceV)
		if !ok1 || !ok2 {
			ex.unsupported("reflect.Copy on arrays/strings")
		}
		if !types.Identical(under(dst.T).(*types.Slice).Elem(), under(src.T).(*types.Slice).Elem()) {
			ex.gopanic("reflect.Copy: " + rtypeString(dst.T) + " != " + rtypeString(src.T))
		}
		return ex.copyOp(ds, ss)
	})
	setIntrinsic("reflect.DeepEqual", func(ex *Exec, fn *ssa.Function, a []Value) Value {
		ex.unsupported("reflect.DeepEqual is not modelled; use hand-written comparators")
		return nil
	})

	// ---- Value methods ----
	setIntrinsic("(reflect.Value).Kind", func(ex *Exec, fn *ssa.Function, a []Value) Value { return kindT(kindOf(R(a).T)) })
	setIntrinsic("(reflect.Value).IsValid", func(ex *Exec, fn *ssa.Function, a []Value) Value { return mkBool(R(a).T != nil) })
	setIntrinsic("(reflect.Value).CanAddr", func(ex *Exec, fn *ssa.Function, a []Value) Value { return mkBool(R(a).CanAddr) })
	setIntrinsic("(reflect.Value).CanSet", func(ex *Exec, fn *ssa.Function, a []Value) Value {
		return mkBool(R(a).CanAddr && !R(a).RO)
	})
	setIntrinsic("(reflect.Value).CanInterface", func(ex *Exec, fn *ssa.Function, a []Value) Value {
		if R(a).T == nil {
			ex.gopanic("reflect: call of reflect.Value.CanInterface on zero Value")
		}
		return mkBool(!R(a).RO)
	})
	setIntrinsic("(reflect.Value).IsNil", func(ex *Exec, fn *ssa.Function, a []Value) Value { return mkBool(ex.rvIsNil(R(a))) })
	setIntrinsic("(reflect.Value).Type", func(ex *Exec, fn *ssa.Function, a []Value) Value {
		if R(a).T == nil {
			ex.gopanic("reflect: call of reflect.Value.Type on zero Value")
		}
		return ex.mkRT(R(a).T)
	})
	setIntrinsic("(reflect.Value).Elem", func(ex *Exec, fn *ssa.Function, a []Value) Value { return ex.rvElem(R(a)) })
	setIntrinsic("(reflect.Value).Interface", func(ex *Exec, fn *ssa.Function, a []Value) Value { return ex.rvInterface(R(a)) })
	setIntrinsic("(reflect.Value).Len", func(ex *Exec, fn *ssa.Function, a []Value) Value { return ex.rvLen(R(a)) })
	setIntrinsic("(reflect.Value).Cap", func(ex *Exec, fn *ssa.Function, a []Value) Value {
		if s, ok := R(a).val().(*SliceV); ok {
			return s.Cap
		}
		return ex.rvLen(R(a))
	})
	setIntrinsic("(reflect.Value).Index", func(ex *Exec, fn *ssa.Function, a []Value) Value {
		return ex.rvIndex(R(a), a[1].(*Term))
	})
	setIntrinsic("(reflect.Value).NumField", func(ex *Exec, fn *ssa.Function, a []Value) Value {
		st, ok := under(R(a).T).(*types.Struct)
		if R(a).T == nil || !ok {
			ex.rpanic("reflect.Value.NumField", R(a))
		}
		return i64(int64(st.NumFields()))
	})
	setIntrinsic("(reflect.Value).Field", func(ex *Exec, fn *ssa.Function, a []Value) Value {
		if R(a).T == nil {
			ex.rpanic("reflect.Value.Field", R(a))
		}
		return ex.rvField(R(a), ex.concInt(a[1].(*Term)))
	})
	setIntrinsic("(reflect.Value).FieldByName", func(ex *Exec, fn *ssa.Function, a []Value) Value {
		if R(a).T == nil {
			ex.rpanic("reflect.Value.FieldByName", R(a))
		}
		name := ex.concString(a[1].(*StrV))
		return ex.lookupFieldByName(R(a), name)
	})
	setIntrinsic("(reflect.Value).Pointer", func(ex *Exec, fn *ssa.Function, a []Value) Value {
		return mkBV(64, ex.rvPointer(R(a), "reflect.Value.Pointer"))
	})
	setIntrinsic("(reflect.Value).UnsafePointer", func(ex *Exec, fn *ssa.Function, a []Value) Value {
		return &PtrV{Addr: ex.rvPointer(R(a), "reflect.Value.UnsafePointer")}
	})
	setIntrinsic("(reflect.Value).MapKeys", func(ex *Exec, fn *ssa.Function, a []Value) Value {
		rv := R(a)
		if kindOf(rv.T) != kMap {
			ex.rpanic("reflect.Value.MapKeys", rv)
		}
		m := rv.val().(*MapV)
		var out []*RV
		if m != nil {
			kt := under(rv.T).(*types.Map).Key()
			for _, i := range ex.mapOrder(len(m.E)) {
				out = append(out, &RV{T: kt, V: m.E[i].K, RO: rv.RO})
			}
		}
		return ex.rvsSlice(out)
	})
	setIntrinsic("(reflect.Value).MapIndex", func(ex *Exec, fn *ssa.Function, a []Value) Value {
		rv := R(a)
		if kindOf(rv.T) != kMap {
			ex.rpanic("reflect.Value.MapIndex", rv)
		}
		mt := under(rv.T).(*types.Map)
		k := ex.mapKeyFor("reflect.Value.MapIndex", rv, a[1].(*RV))
		if types.IsInterface(mt.Key()) {
			ex.hashable(k)
		}
		e := ex.mapFind(rv.val().(*MapV), k)
		if e == nil {
			return &RV{}
		}
		return &RV{T: mt.Elem(), V: ex.copyVal(e.C.V), RO: rv.RO || a[1].(*RV).RO}
	})
	setIntrinsic("(reflect.Value).SetMapIndex", func(ex *Exec, fn *ssa.Function, a []Value) Value {
		rv := R(a)
		if kindOf(rv.T) != kMap {
			ex.rpanic("reflect.Value.SetMapIndex", rv)
		}
		ex.mustExported("reflect.Value.SetMapIndex", rv)
		mt := under(rv.T).(*types.Map)
		k := ex.mapKeyFor("reflect.Value.SetMapIndex", rv, a[1].(*RV))
		m := rv.val().(*MapV)
		elem := a[2].(*RV)
		if elem.T == nil {
			ex.mapDelete(m, k)
			return nil
		}
		ex.mustExported("reflect.Value.SetMapIndex", elem)
		v := ex.assignTo("reflect.Value.SetMapIndex", elem, mt.Elem())
		ex.mapUpdate(m, k, v)
		return nil
	})
	setIntrinsic("(reflect.Value).Set", func(ex *Exec, fn *ssa.Function, a []Value) Value {
		rv := R(a)
		ex.mustAssignable("reflect.Value.Set", rv)
		x := a[1].(*RV)
		ex.mustExported("reflect.Value.Set", x)
		ex.storeInto(rv.P, ex.assignTo("reflect.Set", x, rv.T))
		return nil
	})
	setIntrinsic("(reflect.Value).SetInt", func(ex *Exec, fn *ssa.Function, a []Value) Value {
		rv := R(a)
		ex.mustAssignable("reflect.Value.SetInt", rv)
		switch kindOf(rv.T) {
		case kInt, kInt8, kInt16, kInt32, kInt64:
			ex.storeInto(rv.P, Extract(a[1].(*Term), bvWidth(rv.T)-1, 0))
		default:
			ex.rpanic("reflect.Value.SetInt", rv)
		}
		return nil
	})
	setIntrinsic("(reflect.Value).SetUint", func(ex *Exec, fn *ssa.Function, a []Value) Value {
		rv := R(a)
		ex.mustAssignable("reflect.Value.SetUint", rv)
		switch kindOf(rv.T) {
		case kUint, kUint8, kUint16, kUint32, kUint64, kUintptr:
			ex.storeInto(rv.P, Extract(a[1].(*Term), bvWidth(rv.T)-1, 0))
		default:
			ex.rpanic("reflect.Value.SetUint", rv)
		}
		return nil
	})
	setIntrinsic("(reflect.Value).SetFloat", func(ex *Exec, fn *ssa.Function, a []Value) Value {
		rv := R(a)
		ex.mustAssignable("reflect.Value.SetFloat", rv)
		switch kindOf(rv.T) {
		case kFloat32:
			ex.storeInto(rv.P, F2F(a[1].(*Term), 32))
		case kFloat64:
			ex.storeInto(rv.P, a[1])
		default:
			ex.rpanic("reflect.Value.SetFloat", rv)
		}
		return nil
	})
	setIntrinsic("(reflect.Value).SetString", func(ex *Exec, fn *ssa.Function, a []Value) Value {
		rv := R(a)
		ex.mustAssignable("reflect.Value.SetString", rv)
		if kindOf(rv.T) != kString {
			ex.rpanic("reflect.Value.SetString", rv)
		}
		ex.storeInto(rv.P, a[1])
		return nil
	})
	setIntrinsic("(reflect.Value).SetBool", func(ex *Exec, fn *ssa.Function, a []Value) Value {
		rv := R(a)
		ex.mustAssignable("reflect.Value.SetBool", rv)
		if kindOf(rv.T) != kBool {
			ex.rpanic("reflect.Value.SetBool", rv)
		}
		ex.storeInto(rv.P, a[1])
		return nil
	})
	setIntrinsic("(reflect.Value).Int", func(ex *Exec, fn *ssa.Function, a []Value) Value {
		rv := R(a)
		switch kindOf(rv.T) {
		case kInt, kInt8, kInt16, kInt32, kInt64:
			return SExt(rv.val().(*Term), 64)
		}
		ex.rpanic("reflect.Value.Int", rv)
		return nil
	})
	setIntrinsic("(reflect.Value).Uint", func(ex *Exec, fn *ssa.Function, a []Value) Value {
		rv := R(a)
		switch kindOf(rv.T) {
		case kUint, kUint8, kUint16, kUint32, kUint64, kUintptr:
			return ZExt(rv.val().(*Term), 64)
		}
		ex.rpanic("reflect.Value.Uint", rv)
		return nil
	})
	setIntrinsic("(reflect.Value).Float", func(ex *Exec, fn *ssa.Function, a []Value) Value {
		rv := R(a)
		switch kindOf(rv.T) {
		case kFloat32, kFloat64:
			return F2F(rv.val().(*Term), 64)
		}
		ex.rpanic("reflect.Value.Float", rv)
		return nil
	})
	setIntrinsic("(reflect.Value).Bool", func(ex *Exec, fn *ssa.Function, a []Value) Value {
		rv := R(a)
		if kindOf(rv.T) != kBool {
			ex.rpanic("reflect.Value.Bool", rv)
		}
		return rv.val()
	})
	setIntrinsic("(reflect.Value).String", func(ex *Exec, fn *ssa.Function, a []Value) Value {
		rv := R(a)
		if kindOf(rv.T) == kString {
			return rv.val()
		}
		if rv.T == nil {
			return strConst("<invalid Value>")
		}
		return strConst("<" + rtypeString(rv.T) + " Value>")
	})
	setIntrinsic("(reflect.Value).Bytes", func(ex *Exec, fn *ssa.Function, a []Value) Value {
		rv := R(a)
		if s, ok := rv.val().(*SliceV); ok {
			return s
		}
		ex.rpanic("reflect.Value.Bytes", rv)
		return nil
	})
	setIntrinsic("(reflect.Value).OverflowUint", func(ex *Exec, fn *ssa.Function, a []Value) Value {
		rv := R(a)
		switch kindOf(rv.T) {
		case kUint, kUint8, kUint16, kUint32, kUint64, kUintptr:
			w := bvWidth(rv.T)
			x := a[1].(*Term)
			return Not(Eq(ZExt(Extract(x, w-1, 0), 64), x))
		}
		ex.rpanic("reflect.Value.OverflowUint", rv)
		return nil
	})
	setIntrinsic("(reflect.Value).OverflowInt", func(ex *Exec, fn *ssa.Function, a []Value) Value {
		rv := R(a)
		switch kindOf(rv.T) {
		case kInt, kInt8, kInt16, kInt32, kInt64:
			w := bvWidth(rv.T)
			x := a[1].(*Term)
			return Not(Eq(SExt(Extract(x, w-1, 0), 64), x))
		}
		ex.rpanic("reflect.Value.OverflowInt", rv)
		return nil
	})
	setIntrinsic("(reflect.Value).OverflowFloat", func(ex *Exec, fn *ssa.Function, a []Value) Value {
		rv := R(a)
		switch kindOf(rv.T) {
		case kFloat64:
			return falseT
		case kFloat32:
			x := a[1].(*Term)
			ax := Ite(FCmp("fp.lt", x, mkF64(0)), FNeg(x), x)
			inf := FCmp("fp.eq", ax, mkF64(math.Inf(1)))
			return And(FCmp("fp.gt", ax, mkF64(math.MaxFloat32)), Not(inf))
		}
		ex.rpanic("reflect.Value.OverflowFloat", rv)
		return nil
	})
	setIntrinsic("(reflect.Value).Addr", func(ex *Exec, fn *ssa.Function, a []Value) Value {
		rv := R(a)
		if !rv.CanAddr || rv.P == nil {
			ex.gopanic("reflect.Value.Addr of unaddressable value")
		}
		return &RV{T: types.NewPointer(rv.T), V: &PtrV{P: rv.P, Addr: rv.Addr, T: rv.T}, RO: rv.RO}
	})
	setIntrinsic("(reflect.Value).IsZero", func(ex *Exec, fn *ssa.Function, a []Value) Value {
		rv := R(a)
		if rv.T == nil {
			ex.rpanic("reflect.Value.IsZero", rv)
		}
		return ex.isZeroValue(rv.val())
	})
	setIntrinsic("(reflect.Value).SetLen", func(ex *Exec, fn *ssa.Function, a []Value) Value {
		rv := R(a)
		ex.mustAssignable("reflect.Value.SetLen", rv)
		s, ok := rv.val().(*SliceV)
		if !ok || kindOf(rv.T) != kSlice {
			ex.rpanic("reflect.Value.SetLen", rv)
		}
		n := a[1].(*Term)
		if !ex.branch(And(BVCmp("bvsle", i64(0), n), BVCmp("bvsle", n, s.Cap))) {
			ex.gopanic("reflect: slice length out of range in SetLen")
		}
		ex.storeInto(rv.P, &SliceV{Arr: s.Arr, Off: s.Off, Len: n, Cap: s.Cap})
		return nil
	})
	setIntrinsic("(reflect.Value).Slice", func(ex *Exec, fn *ssa.Function, a []Value) Value {
		rv := R(a)
		lo, hi := ex.concInt(a[1].(*Term)), ex.concInt(a[2].(*Term))
		switch x := rv.val().(type) {
		case *SliceV:
			if kindOf(rv.T) == kSlice {
				c := ex.concInt(x.Cap)
				if lo < 0 || hi < lo || hi > c {
					ex.gopanic("reflect.Value.Slice: slice index out of bounds")
				}
				if x.Arr == nil {
					return &RV{T: rv.T, V: &SliceV{Len: i64(0), Cap: i64(0)}}
				}
				return &RV{T: rv.T, V: &SliceV{Arr: x.Arr, Off: x.Off + lo, Len: i64(int64(hi - lo)), Cap: i64(int64(c - lo))}}
			}
		case *StrV:
			if lo < 0 || hi < lo || hi > len(x.B) {
				ex.gopanic("reflect.Value.Slice: string slice index out of bounds")
			}
			return &RV{T: rv.T, V: &StrV{B: x.B[lo:hi]}}
		}
		ex.rpanic("reflect.Value.Slice", rv)
		return nil
	})
	setIntrinsic("(reflect.Value).SetBytes", func(ex *Exec, fn *ssa.Function, a []Value) Value {
		rv := R(a)
		ex.mustAssignable("reflect.Value.SetBytes", rv)
		if kindOf(rv.T) != kSlice {
			ex.rpanic("reflect.Value.SetBytes", rv)
		}
		ex.storeInto(rv.P, a[1])
		return nil
	})
	setIntrinsic("(reflect.Value).Convert", func(ex *Exec, fn *ssa.Function, a []Value) Value {
		rv := R(a)
		to := ex.rtArg(a[1], "Convert")
		if rv.T == nil {
			ex.rpanic("reflect.Value.Convert", rv)
		}
		if !types.ConvertibleTo(rv.T, to) {
			ex.gopanic("reflect.Value.Convert: value of type " + rtypeString(rv.T) + " cannot be converted to type " + rtypeString(to))
		}
		if types.IsInterface(to) {
			return &RV{T: to, V: &IfaceV{T: rv.T, V: ex.copyVal(rv.val())}}
		}
		if types.Identical(under(rv.T), under(to)) {
			return &RV{T: to, V: ex.copyVal(rv.val())}
		}
		return &RV{T: to, V: ex.convert(rv.T, to, rv.val())}
	})
	setIntrinsic("reflect.Indirect", func(ex *Exec, fn *ssa.Function, a []Value) Value {
		rv := R(a)
		if kindOf(rv.T) != kPtr {
			return rv
		}
		return ex.rvElem(rv)
	})
	ptrTo := func(ex *Exec, fn *ssa.Function, a []Value) Value {
		return ex.mkRT(types.NewPointer(ex.rtArg(a[0], "PointerTo")))
	}
	setIntrinsic("reflect.PtrTo", ptrTo)
	setIntrinsic("reflect.PointerTo", ptrTo)
	setIntrinsic("reflect.SliceOf", func(ex *Exec, fn *ssa.Function, a []Value) Value {
		return ex.mkRT(types.NewSlice(ex.rtArg(a[0], "SliceOf")))
	})
	setIntrinsic("reflect.MapOf", func(ex *Exec, fn *ssa.Function, a []Value) Value {
		return ex.mkRT(types.NewMap(ex.rtArg(a[0], "MapOf"), ex.rtArg(a[1], "MapOf")))
	})
	setIntrinsic("reflect.AppendSlice", func(ex *Exec, fn *ssa.Function, a []Value) Value {
		s, t := R(a), a[1].(*RV)
		if kindOf(s.T) != kSlice || kindOf(t.T) != kSlice {
			ex.rpanic("reflect.AppendSlice", s)
		}
		et := under(s.T).(*types.Slice).Elem()
		if !types.Identical(et, under(t.T).(*types.Slice).Elem()) {
			ex.gopanic("reflect.AppendSlice: " + rtypeString(s.T) + " != " + rtypeString(t.T))
		}
		ts := t.val().(*SliceV)
		n := ex.concInt(ts.Len)
		var elems []Value
		for i := 0; i < n; i++ {
			elems = append(elems, ex.copyVal(ts.Arr.cell(ts.Off+i).V))
		}
		if n == 0 {
			return &RV{T: s.T, V: s.val()}
		}
		return &RV{T: s.T, V: ex.appendVals(s.val().(*SliceV), elems, et)}
	})
	setIntrinsic("(reflect.Kind).String", func(ex *Exec, fn *ssa.Function, a []Value) Value {
		k := ex.concInt(a[0].(*Term))
		if k >= 0 && k < len(kindNames) {
			return strConst(kindNames[k])
		}
		return strConst("kind" + strconv.Itoa(k))
	})
}

// rtMethod implements methods invoked on a reflect.Type interface value.
func (ex *Exec) rtMethod(t types.Type, name string, args []Value) (Value, bool) {
	switch name {
	case "Kind":
		return mkBV(64, uint64(kindOf(t))), true
	case "Name":
		return strConst(rtypeName(t)), true
	case "String":
		return strConst(rtypeString(t)), true
	case "PkgPath":
		if n, ok := t.(*types.Named); ok && n.Obj().Pkg() != nil {
			return strConst(n.Obj().Pkg().Path()), true
		}
		return strConst(""), true
	case "Elem":
		switch u := under(t).(type) {
		case *types.Pointer:
			return ex.mkRT(u.Elem()), true
		case *types.Slice:
			return ex.mkRT(u.Elem()), true
		case *types.Array:
			return ex.mkRT(u.Elem()), true
		case *types.Map:
			return ex.mkRT(u.Elem()), true
		case *types.Chan:
			return ex.mkRT(u.Elem()), true
		}
		ex.gopanic("reflect: Elem of invalid type " + rtypeString(t))
	case "Key":
		if u, ok := under(t).(*types.Map); ok {
			return ex.mkRT(u.Key()), true
		}
		ex.gopanic("reflect: Key of non-map type " + rtypeString(t))
	case "Len":
		if u, ok := under(t).(*types.Array); ok {
			return i64(u.Len()), true
		}
		ex.gopanic("reflect: Len of non-array type " + rtypeString(t))
	case "NumField":
		if u, ok := under(t).(*types.Struct); ok {
			return i64(int64(u.NumFields())), true
		}
		ex.gopanic("reflect: NumField of non-struct type " + rtypeString(t))
	case "Field":
		u, ok := under(t).(*types.Struct)
		if !ok {
			ex.gopanic("reflect: Field of non-struct type " + rtypeString(t))
		}
		i := ex.concInt(args[0].(*Term))
		if i < 0 || i >= u.NumFields() {
			ex.gopanic("reflect: Field index out of bounds")
		}
		return ex.structField(u, i), true
	case "FieldByName":
		u, ok := under(t).(*types.Struct)
		if !ok {
			ex.gopanic("reflect: FieldByName of non-struct type " + rtypeString(t))
		}
		name := ex.concString(args[0].(*StrV))
		var pkg *types.Package
		if u.NumFields() > 0 {
			pkg = u.Field(0).Pkg()
		}
		obj, index, _ := types.LookupFieldOrMethod(t, true, pkg, name)
		fv, isVar := obj.(*types.Var)
		if !isVar || !fv.IsField() || len(index) == 0 {
			return TupleV{ex.zero(ex.W.structFieldT, 0), falseT}, true
		}
		// walk to the struct that declares the field (through embedded structs and pointers to them)
		st := u
		for _, i := range index[:len(index)-1] {
			ft := st.Field(i).Type()
			if p, isPtr := under(ft).(*types.Pointer); isPtr {
				ft = p.Elem()
			}
			st = under(ft).(*types.Struct)
		}
		sv := ex.structField(st, index[len(index)-1]).(*StructV)
		ust := under(ex.W.structFieldT).(*types.Struct)
		for j := 0; j < ust.NumFields(); j++ {
			if ust.Field(j).Name() == "Index" {
				ts := make([]*Term, len(index))
				for k, i := range index {
					ts[k] = i64(int64(i))
				}
				sv.F[j].V = ex.sliceFromTerms(types.Typ[types.Int], ts)
			}
		}
		return TupleV{sv, trueT}, true
	case "Comparable":
		return mkBool(types.Comparable(t)), true
	case "Size":
		return mkBV(64, uint64(ex.sizeof(t))), true
	case "NumMethod":
		return i64(int64(types.NewMethodSet(t).Len())), true
	case "Implements":
		it := ex.rtArg(args[0], "Implements")
		return mkBool(types.Implements(t, under(it).(*types.Interface))), true
	case "AssignableTo":
		return mkBool(types.AssignableTo(t, ex.rtArg(args[0], "AssignableTo"))), true
	case "ConvertibleTo":
		return mkBool(types.ConvertibleTo(t, ex.rtArg(args[0], "ConvertibleTo"))), true
	}
	return nil, false
}

func (ex *Exec) structField(st *types.Struct, i int) Value {
	sft := ex.W.structFieldT
	sv := ex.zero(sft, 0).(*StructV)
	ust := under(sft).(*types.Struct)
	f := st.Field(i)
	for j := 0; j < ust.NumFields(); j++ {
		switch ust.Field(j).Name() {
		case "Name":
			sv.F[j].V = strConst(f.Name())
		case "PkgPath":
			if !f.Exported() && f.Pkg() != nil {
				sv.F[j].V = strConst(f.Pkg().Path())
			}
		case "Type":
			sv.F[j].V = ex.mkRT(f.Type())
		case "Tag":
			sv.F[j].V = strConst(st.Tag(i))
		case "Offset":
			sv.F[j].V = mkBV(64, uint64(ex.structOffsets(st)[i]))
		case "Index":
			sv.F[j].V = ex.sliceFromTerms(types.Typ[types.Int], []*Term{i64(int64(i))})
		case "Anonymous":
			sv.F[j].V = mkBool(f.Embedded())
		}
	}
	return sv
}

func (ex *Exec) concString(s *StrV) string {
	bs := make([]byte, len(s.B))
	for i, t := range s.B {
		bs[i] = byte(ex.pick(t))
	}
	return string(bs)
}

var _ = fmt.Sprint

// isZeroValue: reflect.Value.IsZero.
func (ex *Exec) isZeroValue(v Value) *Term {
	switch x := v.(type) {
	case *Term:
		switch x.S.K {
		case SBool:
			return Not(x)
		case SBV:
			return Eq(x, mkBV(x.S.W, 0))
		default:
			return Eq(FToBits(x), mkBV(x.S.W, 0))
		}
	case *StrV:
		return mkBool(len(x.B) == 0)
	case *PtrV:
		return mkBool(x.P == nil)
	case *SliceV:
		return mkBool(x.Arr == nil)
	case *MapV:
		return mkBool(x == nil)
	case *ChanV:
		return mkBool(x == nil)
	case *ClosureV:
		return mkBool(x == nil)
	case *IfaceV:
		return mkBool(x.T == nil)
	case *StructV:
		acc := trueT
		for _, c := range x.F {
			acc = And(acc, ex.isZeroValue(c.V))
		}
		return acc
	case *ArrV:
		n, _ := constInt(x.N)
		acc := trueT
		for i := 0; i < n; i++ {
			acc = And(acc, ex.isZeroValue(x.cell(i).V))
		}
		return acc
	}
	return falseT
}
