package main

// Term DAG: bit-vectors (Go integers wrap like machine words), booleans and IEEE floats.
// Constant folding is eager so that concrete code stays concrete and costs no solver call.

import (
	"fmt"
	"math"
	"math/bits"
	"strings"
)

type SortKind int

const (
	SBool SortKind = iota
	SBV
	SFP
)

type Sort struct {
	K SortKind
	W int // bit width (BV) or 32/64 (FP)
}

func (s Sort) String() string {
	switch s.K {
	case SBool:
		return "Bool"
	case SBV:
		return fmt.Sprintf("(_ BitVec %d)", s.W)
	default:
		if s.W == 32 {
			return "(_ FloatingPoint 8 24)"
		}
		return "(_ FloatingPoint 11 53)"
	}
}

var (
	BoolSort = Sort{SBool, 0}
)

func BV(w int) Sort { return Sort{SBV, w} }
func FP(w int) Sort { return Sort{SFP, w} }

type Term struct {
	Op   string
	S    Sort
	Args []*Term
	C    uint64 // constant payload: BV value (masked), bool (0/1), FP bits
	Name string // var name
	P1   int    // extract hi / ext amount / misc
	P2   int    // extract lo
	id   int
}

var termCounter int

func mask(w int) uint64 {
	if w >= 64 {
		return ^uint64(0)
	}
	return (uint64(1) << uint(w)) - 1
}

func (t *Term) IsConst() bool { return t.Op == "const" }

func mkBV(w int, v uint64) *Term   { return &Term{Op: "const", S: BV(w), C: v & mask(w)} }
func mkBool(b bool) *Term {
	if b {
		return trueT
	}
	return falseT
}
func mkF64(f float64) *Term { return &Term{Op: "const", S: FP(64), C: math.Float64bits(f)} }
func mkF32(f float32) *Term { return &Term{Op: "const", S: FP(32), C: uint64(math.Float32bits(f))} }

var trueT = &Term{Op: "const", S: BoolSort, C: 1}
var falseT = &Term{Op: "const", S: BoolSort, C: 0}

func mkVar(name string, s Sort) *Term {
	termCounter++
	return &Term{Op: "var", S: s, Name: name, id: termCounter}
}

func (t *Term) Bool() bool { return t.C != 0 }

// signed value of a BV constant
func (t *Term) Int64() int64 {
	w := t.S.W
	v := t.C
	if w < 64 && v&(uint64(1)<<uint(w-1)) != 0 {
		v |= ^mask(w)
	}
	return int64(v)
}
func (t *Term) F64() float64 {
	if t.S.W == 32 {
		return float64(math.Float32frombits(uint32(t.C)))
	}
	return math.Float64frombits(t.C)
}

func mk(op string, s Sort, args ...*Term) *Term {
	termCounter++
	return &Term{Op: op, S: s, Args: args, id: termCounter}
}

func allConst(args ...*Term) bool {
	for _, a := range args {
		if !a.IsConst() {
			return false
		}
	}
	return true
}

// ---------- boolean ----------

func Not(a *Term) *Term {
	if a.IsConst() {
		return mkBool(!a.Bool())
	}
	if a.Op == "not" {
		return a.Args[0]
	}
	return mk("not", BoolSort, a)
}
func And(a, b *Term) *Term {
	if a.IsConst() {
		if a.Bool() {
			return b
		}
		return falseT
	}
	if b.IsConst() {
		if b.Bool() {
			return a
		}
		return falseT
	}
	return mk("and", BoolSort, a, b)
}
func Or(a, b *Term) *Term {
	if a.IsConst() {
		if a.Bool() {
			return trueT
		}
		return b
	}
	if b.IsConst() {
		if b.Bool() {
			return trueT
		}
		return a
	}
	return mk("or", BoolSort, a, b)
}

func Ite(c, a, b *Term) *Term {
	if c.IsConst() {
		if c.Bool() {
			return a
		}
		return b
	}
	if a == b {
		return a
	}
	if a.IsConst() && b.IsConst() && a.S == b.S && a.C == b.C {
		return a
	}
	return mk("ite", a.S, c, a, b)
}

func Eq(a, b *Term) *Term {
	if a.S != b.S {
		panic(fmt.Sprintf("Eq sort mismatch %v %v", a.S, b.S))
	}
	if a == b && a.S.K != SFP {
		return trueT
	}
	if allConst(a, b) {
		if a.S.K == SFP {
			// structural (bit) equality is not what callers want for FP; use FEq for IEEE ==
			return mkBool(a.C == b.C)
		}
		return mkBool(a.C == b.C)
	}
	return mk("=", BoolSort, a, b)
}

// ---------- bit-vector ----------

func sx(v uint64, w int) int64 {
	if w < 64 && v&(uint64(1)<<uint(w-1)) != 0 {
		v |= ^mask(w)
	}
	return int64(v)
}

func BVBin(op string, a, b *Term) *Term {
	if a.S != b.S || a.S.K != SBV {
		panic(fmt.Sprintf("BVBin %s sort mismatch %v %v", op, a.S, b.S))
	}
	w := a.S.W
	if allConst(a, b) {
		x, y := a.C, b.C
		var r uint64
		switch op {
		case "bvadd":
			r = x + y
		case "bvsub":
			r = x - y
		case "bvmul":
			r = x * y
		case "bvand":
			r = x & y
		case "bvor":
			r = x | y
		case "bvxor":
			r = x ^ y
		case "bvudiv":
			if y == 0 {
				r = mask(w)
			} else {
				r = x / y
			}
		case "bvurem":
			if y == 0 {
				r = x
			} else {
				r = x % y
			}
		case "bvsdiv":
			sxv, syv := sx(x, w), sx(y, w)
			if syv == 0 {
				if sxv < 0 {
					r = 1
				} else {
					r = mask(w)
				}
			} else if syv == -1 {
				r = uint64(-sxv)
			} else {
				r = uint64(sxv / syv)
			}
		case "bvsrem":
			sxv, syv := sx(x, w), sx(y, w)
			if syv == 0 {
				r = x
			} else if syv == -1 {
				r = 0
			} else {
				r = uint64(sxv % syv)
			}
		case "bvshl":
			if y >= uint64(w) {
				r = 0
			} else {
				r = x << y
			}
		case "bvlshr":
			if y >= uint64(w) {
				r = 0
			} else {
				r = x >> y
			}
		case "bvashr":
			sxv := sx(x, w)
			if y >= uint64(w) {
				if sxv < 0 {
					r = mask(w)
				} else {
					r = 0
				}
			} else {
				r = uint64(sxv >> y)
			}
		default:
			panic("BVBin fold " + op)
		}
		return mkBV(w, r)
	}
	// light algebraic simplification
	switch op {
	case "bvadd", "bvor", "bvxor":
		if a.IsConst() && a.C == 0 {
			return b
		}
		if b.IsConst() && b.C == 0 {
			return a
		}
	case "bvsub", "bvshl", "bvlshr", "bvashr":
		if b.IsConst() && b.C == 0 {
			return a
		}
	case "bvand":
		if a.IsConst() && a.C == 0 || b.IsConst() && b.C == 0 {
			return mkBV(w, 0)
		}
		if b.IsConst() && b.C == mask(w) {
			return a
		}
		if a.IsConst() && a.C == mask(w) {
			return b
		}
	case "bvmul":
		if a.IsConst() && a.C == 1 {
			return b
		}
		if b.IsConst() && b.C == 1 {
			return a
		}
	}
	return mk(op, a.S, a, b)
}

func BVCmp(op string, a, b *Term) *Term {
	if a.S != b.S || a.S.K != SBV {
		panic(fmt.Sprintf("BVCmp %s sort mismatch %v %v", op, a.S, b.S))
	}
	if allConst(a, b) {
		w := a.S.W
		switch op {
		case "bvult":
			return mkBool(a.C < b.C)
		case "bvule":
			return mkBool(a.C <= b.C)
		case "bvslt":
			return mkBool(sx(a.C, w) < sx(b.C, w))
		case "bvsle":
			return mkBool(sx(a.C, w) <= sx(b.C, w))
		}
		panic("BVCmp fold " + op)
	}
	return mk(op, BoolSort, a, b)
}

func BVNot(a *Term) *Term {
	if a.IsConst() {
		return mkBV(a.S.W, ^a.C)
	}
	return mk("bvnot", a.S, a)
}
func BVNeg(a *Term) *Term {
	if a.IsConst() {
		return mkBV(a.S.W, -a.C)
	}
	return mk("bvneg", a.S, a)
}

func Extract(a *Term, hi, lo int) *Term {
	if lo == 0 && hi == a.S.W-1 {
		return a
	}
	if a.IsConst() {
		return mkBV(hi-lo+1, a.C>>uint(lo))
	}
	// extract of zext/sext that stays within the original → extract of original
	if (a.Op == "zext" || a.Op == "sext") && hi < a.Args[0].S.W {
		return Extract(a.Args[0], hi, lo)
	}
	if a.Op == "concat" {
		lw := a.Args[1].S.W
		if hi < lw {
			return Extract(a.Args[1], hi, lo)
		}
		if lo >= lw {
			return Extract(a.Args[0], hi-lw, lo-lw)
		}
	}
	t := mk("extract", BV(hi-lo+1), a)
	t.P1, t.P2 = hi, lo
	return t
}

func ZExt(a *Term, w int) *Term {
	if w == a.S.W {
		return a
	}
	if w < a.S.W {
		return Extract(a, w-1, 0)
	}
	if a.IsConst() {
		return mkBV(w, a.C)
	}
	t := mk("zext", BV(w), a)
	t.P1 = w - a.S.W
	return t
}
func SExt(a *Term, w int) *Term {
	if w == a.S.W {
		return a
	}
	if w < a.S.W {
		return Extract(a, w-1, 0)
	}
	if a.IsConst() {
		return mkBV(w, uint64(sx(a.C, a.S.W)))
	}
	t := mk("sext", BV(w), a)
	t.P1 = w - a.S.W
	return t
}
func Concat(hi, lo *Term) *Term {
	w := hi.S.W + lo.S.W
	if allConst(hi, lo) {
		return mkBV(w, hi.C<<uint(lo.S.W)|lo.C)
	}
	return mk("concat", BV(w), hi, lo)
}

// ---------- floating point ----------

func fconst(w int, f float64) *Term {
	if w == 32 {
		return mkF32(float32(f))
	}
	return mkF64(f)
}

func FBin(op string, a, b *Term) *Term {
	if a.S != b.S || a.S.K != SFP {
		panic("FBin sort mismatch")
	}
	if allConst(a, b) {
		if a.S.W == 32 {
			x, y := math.Float32frombits(uint32(a.C)), math.Float32frombits(uint32(b.C))
			var r float32
			switch op {
			case "fp.add":
				r = x + y
			case "fp.sub":
				r = x - y
			case "fp.mul":
				r = x * y
			case "fp.div":
				r = x / y
			}
			return mkF32(r)
		}
		x, y := math.Float64frombits(a.C), math.Float64frombits(b.C)
		var r float64
		switch op {
		case "fp.add":
			r = x + y
		case "fp.sub":
			r = x - y
		case "fp.mul":
			r = x * y
		case "fp.div":
			r = x / y
		}
		return mkF64(r)
	}
	return mk(op, a.S, a, b)
}

func FNeg(a *Term) *Term {
	if a.IsConst() {
		if a.S.W == 32 {
			return mkF32(-math.Float32frombits(uint32(a.C)))
		}
		return mkF64(-math.Float64frombits(a.C))
	}
	return mk("fp.neg", a.S, a)
}

func FCmp(op string, a, b *Term) *Term {
	if a.S != b.S || a.S.K != SFP {
		panic("FCmp sort mismatch")
	}
	if allConst(a, b) {
		x, y := a.F64(), b.F64()
		switch op {
		case "fp.eq":
			return mkBool(x == y)
		case "fp.lt":
			return mkBool(x < y)
		case "fp.leq":
			return mkBool(x <= y)
		case "fp.gt":
			return mkBool(x > y)
		case "fp.geq":
			return mkBool(x >= y)
		}
	}
	return mk(op, BoolSort, a, b)
}

func FIsNaN(a *Term) *Term {
	if a.IsConst() {
		return mkBool(math.IsNaN(a.F64()))
	}
	return mk("fp.isNaN", BoolSort, a)
}

// float -> float of width w
func F2F(a *Term, w int) *Term {
	if a.S.W == w {
		return a
	}
	if a.IsConst() {
		return fconst(w, a.F64())
	}
	return mk("f2f", FP(w), a)
}

// signed/unsigned BV -> float
func I2F(a *Term, signed bool, w int) *Term {
	if a.IsConst() {
		var f float64
		if signed {
			if w == 32 {
				return mkF32(float32(a.Int64()))
			}
			f = float64(a.Int64())
		} else {
			if w == 32 {
				return mkF32(float32(a.C))
			}
			f = float64(a.C)
		}
		return mkF64(f)
	}
	op := "u2f"
	if signed {
		op = "s2f"
	}
	return mk(op, FP(w), a)
}

// float -> BV of width w with amd64 semantics (cvttsd2si: out of range / NaN -> MinInt for 32/64-bit signed;
// narrower signed targets truncate the 32-bit result; unsigned 64 uses the Go compiler's sequence).
func F2I(a *Term, signed bool, w int) *Term {
	if a.IsConst() {
		f := a.F64()
		return mkBV(w, goFloatToInt(f, signed, w))
	}
	t := mk("f2i", BV(w), a)
	if signed {
		t.P1 = 1
	}
	return t
}

// goFloatToInt mirrors what gc/amd64 produces for intN(f)/uintN(f).
func goFloatToInt(f float64, signed bool, w int) uint64 {
	cvt64 := func(f float64) int64 { // cvttsd2sq
		if math.IsNaN(f) || f >= 9223372036854775808.0 || f < -9223372036854775808.0 {
			return math.MinInt64
		}
		return int64(f)
	}
	cvt32 := func(f float64) int32 { // cvttsd2sl
		if math.IsNaN(f) || f >= 2147483648.0 || f < -2147483648.0 {
			return math.MinInt32 // (for -2^31-1 < f < -2^31 truncation gives MinInt32 as well)
		}
		return int32(f)
	}
	if signed {
		if w == 64 {
			return uint64(cvt64(f))
		}
		return uint64(cvt32(f)) & mask(w)
	}
	if w == 64 {
		// gc: if f < 2^63 { cvttsd2sq(f) } else { cvttsd2sq(f-2^63) ^ (1<<63) }
		if f < 9223372036854775808.0 {
			return uint64(cvt64(f))
		}
		return uint64(cvt64(f-9223372036854775808.0)) ^ (1 << 63)
	}
	// uint32 and narrower: via 64-bit signed conversion, truncated
	return uint64(cvt64(f)) & mask(w)
}

func FFromBits(a *Term) *Term {
	w := a.S.W
	if a.IsConst() {
		return &Term{Op: "const", S: FP(w), C: a.C}
	}
	if a.Op == "f.tobits" {
		return a.Args[0]
	}
	return mk("f.frombits", FP(w), a)
}
func FToBits(a *Term) *Term {
	w := a.S.W
	if a.IsConst() {
		return mkBV(w, a.C)
	}
	if a.Op == "f.frombits" {
		return a.Args[0]
	}
	return mk("f.tobits", BV(w), a)
}

// ---------- rendering to SMT-LIB2 ----------

func bvLit(w int, v uint64) string {
	if w%4 == 0 {
		return fmt.Sprintf("#x%0*x", w/4, v&mask(w))
	}
	return fmt.Sprintf("#b%0*b", w, v&mask(w))
}

func fpLit(w int, bitsv uint64) string {
	if w == 32 {
		return fmt.Sprintf("(fp #b%01b #b%08b #b%023b)", (bitsv>>31)&1, (bitsv>>23)&0xff, bitsv&0x7fffff)
	}
	return fmt.Sprintf("(fp #b%01b #b%011b #b%052b)", (bitsv>>63)&1, (bitsv>>52)&0x7ff, bitsv&0xfffffffffffff)
}

type renderer struct {
	names map[*Term]string
	refs  map[*Term]int
	order []*Term
	vars  map[string]*Term
}

func (r *renderer) count(t *Term) {
	r.refs[t]++
	if r.refs[t] > 1 {
		return
	}
	if t.Op == "var" {
		r.vars[t.Name] = t
	}
	for _, a := range t.Args {
		r.count(a)
	}
	r.order = append(r.order, t) // post-order: children first
}

func (r *renderer) expr(t *Term) string {
	if n, ok := r.names[t]; ok {
		return n
	}
	return r.raw(t)
}

func toFPPrefix(w int) string {
	if w == 32 {
		return "(_ to_fp 8 24)"
	}
	return "(_ to_fp 11 53)"
}

func (r *renderer) raw(t *Term) string {
	a := func(i int) string { return r.expr(t.Args[i]) }
	switch t.Op {
	case "const":
		switch t.S.K {
		case SBool:
			if t.C != 0 {
				return "true"
			}
			return "false"
		case SBV:
			return bvLit(t.S.W, t.C)
		default:
			return fpLit(t.S.W, t.C)
		}
	case "var":
		return t.Name
	case "not":
		return "(not " + a(0) + ")"
	case "extract":
		return fmt.Sprintf("((_ extract %d %d) %s)", t.P1, t.P2, a(0))
	case "zext":
		return fmt.Sprintf("((_ zero_extend %d) %s)", t.P1, a(0))
	case "sext":
		return fmt.Sprintf("((_ sign_extend %d) %s)", t.P1, a(0))
	case "fp.add", "fp.sub", "fp.mul", "fp.div":
		return "(" + t.Op + " RNE " + a(0) + " " + a(1) + ")"
	case "f2f":
		return "(" + toFPPrefix(t.S.W) + " RNE " + a(0) + ")"
	case "s2f":
		return "(" + toFPPrefix(t.S.W) + " RNE " + a(0) + ")"
	case "u2f":
		if t.S.W == 32 {
			return "((_ to_fp_unsigned 8 24) RNE " + a(0) + ")"
		}
		return "((_ to_fp_unsigned 11 53) RNE " + a(0) + ")"
	case "f.frombits":
		return "(" + toFPPrefix(t.S.W) + " " + a(0) + ")"
	case "f.tobits":
		return "(fp.to_ieee_bv " + a(0) + ")"
	case "f2i":
		return r.f2i(t, a(0))
	}
	var sb strings.Builder
	sb.WriteString("(")
	sb.WriteString(t.Op)
	for i := range t.Args {
		sb.WriteString(" ")
		sb.WriteString(a(i))
	}
	sb.WriteString(")")
	return sb.String()
}

// f2i renders float->int with amd64 semantics.
func (r *renderer) f2i(t *Term, x string) string {
	fw := t.Args[0].S.W
	w := t.S.W
	lit := func(f float64) string {
		if fw == 32 {
			return fpLit(32, uint64(math.Float32bits(float32(f))))
		}
		return fpLit(64, math.Float64bits(f))
	}
	cvt := func(x string, cw int) string { // cvttsd2s{l,q}
		lim := math.Ldexp(1, cw-1)
		minv := bvLit(cw, uint64(1)<<uint(cw-1))
		return fmt.Sprintf("(ite (or (fp.isNaN %s) (fp.geq %s %s) (fp.lt %s %s)) %s ((_ fp.to_sbv %d) RTZ %s))",
			x, x, lit(lim), x, lit(-lim), minv, cw, x)
	}
	signed := t.P1 == 1
	if signed {
		if w == 64 {
			return cvt(x, 64)
		}
		c := cvt(x, 32)
		if w == 32 {
			return c
		}
		return fmt.Sprintf("((_ extract %d 0) %s)", w-1, c)
	}
	if w == 64 {
		two63 := lit(math.Ldexp(1, 63))
		return fmt.Sprintf("(ite (fp.lt %s %s) %s (bvxor %s #x8000000000000000))", x, two63, cvt(x, 64),
			cvt("(fp.sub RNE "+x+" "+two63+")", 64))
	}
	return fmt.Sprintf("((_ extract %d 0) %s)", w-1, cvt(x, 64))
}

// Render returns an SMT-LIB expression for t using let-bindings for shared sub-terms, and
// the set of variables it mentions.
func Render(t *Term) (string, map[string]*Term) {
	r := &renderer{names: map[*Term]string{}, refs: map[*Term]int{}, vars: map[string]*Term{}}
	r.count(t)
	var sb strings.Builder
	nlets := 0
	for _, n := range r.order {
		if n == t || r.refs[n] < 2 || n.Op == "const" || n.Op == "var" {
			continue
		}
		e := r.raw(n)
		name := fmt.Sprintf("?l%d", nlets)
		nlets++
		sb.WriteString("(let ((" + name + " " + e + ")) ")
		r.names[n] = name
	}
	sb.WriteString(r.raw(t))
	for i := 0; i < nlets; i++ {
		sb.WriteString(")")
	}
	return sb.String(), r.vars
}

// ---------- evaluation under a model ----------

type Model map[string]uint64

func Eval(t *Term, m Model, memo map[*Term]*Term) *Term {
	if t.Op == "const" {
		return t
	}
	if v, ok := memo[t]; ok {
		return v
	}
	var res *Term
	if t.Op == "var" {
		v, ok := m[t.Name]
		if !ok {
			v = 0
		}
		switch t.S.K {
		case SBool:
			res = mkBool(v != 0)
		case SBV:
			res = mkBV(t.S.W, v)
		default:
			res = &Term{Op: "const", S: t.S, C: v}
		}
		memo[t] = res
		return res
	}
	args := make([]*Term, len(t.Args))
	for i, a := range t.Args {
		args[i] = Eval(a, m, memo)
	}
	switch t.Op {
	case "not":
		res = Not(args[0])
	case "and":
		res = And(args[0], args[1])
	case "or":
		res = Or(args[0], args[1])
	case "ite":
		res = Ite(args[0], args[1], args[2])
	case "=":
		if args[0].S.K == SFP {
			// SMT "=" on FP: identical values, all NaNs equal, +0 != -0
			x, y := args[0], args[1]
			if math.IsNaN(x.F64()) || math.IsNaN(y.F64()) {
				res = mkBool(math.IsNaN(x.F64()) && math.IsNaN(y.F64()))
			} else {
				res = mkBool(x.C == y.C)
			}
		} else {
			res = Eq(args[0], args[1])
		}
	case "bvadd", "bvsub", "bvmul", "bvand", "bvor", "bvxor", "bvudiv", "bvurem", "bvsdiv", "bvsrem", "bvshl", "bvlshr", "bvashr":
		res = BVBin(t.Op, args[0], args[1])
	case "bvult", "bvule", "bvslt", "bvsle":
		res = BVCmp(t.Op, args[0], args[1])
	case "bvnot":
		res = BVNot(args[0])
	case "bvneg":
		res = BVNeg(args[0])
	case "extract":
		res = Extract(args[0], t.P1, t.P2)
	case "zext":
		res = ZExt(args[0], t.S.W)
	case "sext":
		res = SExt(args[0], t.S.W)
	case "concat":
		res = Concat(args[0], args[1])
	case "fp.add", "fp.sub", "fp.mul", "fp.div":
		res = FBin(t.Op, args[0], args[1])
	case "fp.neg":
		res = FNeg(args[0])
	case "fp.eq", "fp.lt", "fp.leq", "fp.gt", "fp.geq":
		res = FCmp(t.Op, args[0], args[1])
	case "fp.isNaN":
		res = FIsNaN(args[0])
	case "f2f":
		res = F2F(args[0], t.S.W)
	case "s2f":
		res = I2F(args[0], true, t.S.W)
	case "u2f":
		res = I2F(args[0], false, t.S.W)
	case "f2i":
		res = F2I(args[0], t.P1 == 1, t.S.W)
	case "f.frombits":
		res = FFromBits(args[0])
	case "f.tobits":
		res = FToBits(args[0])
	default:
		panic("Eval: unknown op " + t.Op)
	}
	if !res.IsConst() {
		panic("Eval: non-constant result for " + t.Op)
	}
	memo[t] = res
	return res
}

var _ = bits.Len
