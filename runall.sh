#!/bin/sh
# runs every quick check, prints exit code and wall time per property
cd "$(dirname "$0")"
TIER=${1:-quick}
for p in C01 C02 C03 C04 C05 C06 C07 C08 C09 C10 C11 C12 C13 C14 C15 C16 C17; do
  s=$(date +%s)
  ./verif check $p --tier $TIER > .work/run-$p.log 2>&1
  rc=$?
  e=$(date +%s)
  echo "$p exit=$rc wall=$((e-s))s $(grep -c '^VIOLATION' .work/run-$p.log) violations, $(grep -c '^INCONCLUSIVE' .work/run-$p.log) inconclusive, $(grep -c '^KNOWN-FINDING' .work/run-$p.log) known"
done
