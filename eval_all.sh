#!/bin/sh
# baseline evaluation of every seed against the check of its own property (plus related ones)
cd /verif
run() { ./eval_seed.sh "$1" "$2" 2>&1 | grep "^seed\|^VIOLATION\|^INCONCL\|harness=" ; }
run S03-C09-reject-ufffd C09
run S04-C03-type-table-dedup C03
run S05-C07-int-guard-off-by-one C07
run S06-C11-reset-keeps-refcount C11
run S07-C17-return-blocks-when-full C17
run S08-C02-class16-compact-tag C02,C05
run S09-C15-otag-error-overwritten C15
run S10-C08-float32-subnormal C08
run S11-C14-grow-to-declared-length C14
run S12-C04-reset-keeps-refmap C04,C11
run S13-C13-no-reset-after-failed-encode C13,C11
run S14-C12-namemap-write-custom-name C12
run S15-C16-empty-slice-not-walked C16
run S16-C10-read-not-readfull C10
