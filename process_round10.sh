#!/bin/sh
# round 10: one designed change per chosen property in /tmp/mut10_Cnn
cd /verif; mkdir -p .work
for d in /tmp/mut10_C*; do
  [ -f $d/patch.diff ] || { echo "$d: no patch"; continue; }
  P=$(basename $d | sed "s/mut10_//")
  NN=$(echo $P | sed 's/C//')
  ID=R${NN}-${P}
  [ -d seeded/$ID ] && continue
  if ./confirm_seed.sh $P $d > .work/confirm-$ID.log 2>&1; then
    mkdir -p seeded/$ID; cp $d/patch.diff $d/zz_demo_test.go $d/meta.txt seeded/$ID/
    ./eval_seed.sh $ID $P 2>&1 | grep "^seed\|INCONCL" | cut -c1-200
  else
    echo "$ID: NOT CONFIRMED: $(tail -1 .work/confirm-$ID.log)"
  fi
done
