//go:build verif

package hessian

import (
	"fmt"
	"os"
	"testing"
)

// TestVerifReplay runs one harness natively on the inputs of a solver counterexample.
func TestVerifReplay(t *testing.T) {
	path := os.Getenv("VERIF_REPLAY")
	if path == "" {
		t.Skip("no VERIF_REPLAY")
	}
	if err := vLoadReplay(path); err != nil {
		t.Fatal(err)
	}
	h, ok := vHarnesses[vReplay.Harness]
	if !ok {
		fmt.Println("REPLAY-RESULT no-such-harness")
		t.Fatal("no harness " + vReplay.Harness)
	}
	func() {
		defer func() {
			r := recover()
			if lbl := vFrozenChanged(); lbl != "" {
				fmt.Println("REPLAY-RESULT violated:store-to-" + lbl)
				return
			}
			switch x := r.(type) {
			case nil:
				fmt.Println("REPLAY-RESULT ok")
			case vViolated:
				fmt.Println("REPLAY-RESULT violated:" + x.id)
			case vAssumeFailed:
				fmt.Println("REPLAY-RESULT assume-failed")
			default:
				fmt.Printf("REPLAY-RESULT panic:%v\n", r)
			}
		}()
		h()
	}()
}
