//go:build verif

package hessian

// vWholeSecond32: instants the encoder sends in its compact x4b form. gohessian writes *seconds* there; the
// Hessian 2.0 grammar (and a Java peer) reads x4b as *minutes* (known finding C02-x4b-seconds).
func vWholeSecond32(v *ZScalars) bool {
	s := v.T.Unix()
	return vAnd(!v.T.IsZero(), vAnd(v.T.Nanosecond() == 0, vAnd(s >= -2147483648, s <= 2147483647)))
}

func checkWellFormed(bs []byte, exp *AV) {
	av, n, p := refParse(bs)
	vAssert("parses", p.err == "")
	vAssert("no-bytes-left", n == len(bs))
	vAssert("denotes", avEqual(exp, av))
}

// H_C02_scalars: the stream for a struct of every scalar kind is one well-formed value denoting it.
func H_C02_scalars() {
	v := zScalarsBase()
	zScalarsSym(v, vChoice("field", 16))
	vKnown("C02-x4b-seconds", vWholeSecond32(v))
	_, nameMap := vExtract(v)
	bs, err := ToBytes(v, nameMap)
	vAssert("encode-noerr", err == nil)
	checkWellFormed(bs, newAVBuilder(nameMap).zScalars(v))
}

// H_C02_nested: nested struct, pointer (nil / fresh / the same object twice is C04's subject).
func H_C02_nested() {
	v := &ZOuter{A: vInt32("a"), Z: 7}
	v.In = ZInner{N: 3, S: vText("s", 1)}
	if vChoice("p", 2) == 1 {
		v.P = &ZInner{N: vInt32("pn"), S: "q"}
	}
	_, nameMap := vExtract(v)
	bs, err := ToBytes(v, nameMap)
	vAssert("encode-noerr", err == nil)
	checkWellFormed(bs, newAVBuilder(nameMap).zOuter(v))
}

// H_C02_lists: typed lists carry their registered type name and true element count at every length form.
func H_C02_lists() {
	n := zListLen()
	v := &ZLists{}
	switch vChoice("list", 5) {
	case 0:
		v.Ss = make([]string, n)
		for i := range v.Ss {
			v.Ss[i] = "s"
		}
	case 1:
		v.Is = make([]int32, n, n+5) // spare capacity: the count on the wire is the length
		for i := range v.Is {
			v.Is[i] = int32(i)
		}
		if n > 0 {
			v.Is[n-1] = vInt32("i")
		}
	case 2:
		v.Ls = make([]int64, n)
	case 3:
		v.Fs = make([]float64, n)
	case 4:
		v.Ps = make([]*ZInner, n)
		for i := range v.Ps {
			v.Ps[i] = &ZInner{N: int32(i), S: "p"}
		}
	}
	_, nameMap := vExtract(v)
	bs, err := ToBytes(v, nameMap)
	vAssert("encode-noerr", err == nil)
	checkWellFormed(bs, newAVBuilder(nameMap).zLists(v))
}

// H_C02_named: a type declaring HessianCodecName is sent under that class name.
func H_C02_named() {
	v := &ZNamed{V: vInt32("v")}
	_, nameMap := vExtract(v)
	bs, err := ToBytes(v, nameMap)
	vAssert("encode-noerr", err == nil)
	exp := &AV{Kind: 'O', Type: "com.example.Named", Fields: []string{"v"}, Items: []*AV{avInt(v.V)}, Ord: 0}
	checkWellFormed(bs, exp)
}

// H_C02_refs: a back-reference carries the ordinal, in stream order, of the container it stands for.
func H_C02_refs() {
	in := &ZInner{N: vInt32("n"), S: "x"}
	v := &ZRefHolder{A: in, B: in}
	if vChoice("l", 2) == 1 {
		v.L = []int32{7}
	}
	_, nameMap := vExtract(v)
	bs, err := ToBytes(v, nameMap)
	vAssert("encode-noerr", err == nil)
	b := newAVBuilder(nameMap)
	o := b.ord()
	a1 := b.zInnerP(v.A)
	a2 := b.zInnerP(v.B)
	l := b.list("[]int32", len(v.L))
	for _, x := range v.L {
		l.Items = append(l.Items, avInt(x))
	}
	exp := b.obj("ZRefHolder", []string{"a", "b", "l", "m"}, a1, a2, l, &AV{Kind: 'M', Ord: -1})
	exp.Ord = o
	checkWellFormed(bs, exp)
}

// H_C02_many_classes: every instance names the definition of its own class, emitted earlier in the stream, also
// for definition indexes 15, 16, 17 (short form / 'O' form boundary).
func H_C02_many_classes() {
	n := 1 + vChoice("classes", 19)
	again := []int{0, 2, 15, 16, 17}[vChoice("again", 5)]
	vAssume(again < n)
	x := vInt32("x")
	v := zManyClasses(n, x, again)
	_, nameMap := vExtract(v)
	bs, err := ToBytes(v, nameMap)
	vAssert("encode-noerr", err == nil)
	exp := &AV{Kind: 'V', Ord: 0}
	for i, e := range v {
		ci := i
		if i == n {
			ci = again
		}
		exp.Items = append(exp.Items, &AV{Kind: 'O', Type: zClassName(ci), Fields: []string{"v"}, Items: []*AV{avInt(zClassV(e))}, Ord: i + 1})
	}
	checkWellFormed(bs, exp)
}

// H_C02_second_message: the stream a reused encoder / serializer produces for its next one-shot call is just as
// well-formed: ordinals and class-definition indexes start again from zero, whatever the earlier message held.
func H_C02_second_message() {
	in := &ZInner{N: vInt32("n"), S: "x"}
	v := &ZRefHolder{A: in, B: in, L: []int32{7}}
	_, nameMap := vExtractAll(v, []string{})
	var first interface{}
	switch vChoice("first", 4) {
	case 0:
		first = []string{}
	case 1:
		first = []interface{}{[]int32{}, nil, int32(1)}
	case 2:
		first = in
	case 3:
		first = &ZOuter{A: 1, In: ZInner{N: 2, S: "i"}, P: in}
	}
	var bs []byte
	var err error
	if vChoice("api", 2) == 0 {
		e := NewEncoder(nil, nameMap)
		_, err = e.Encode(first)
		vAssert("first-noerr", err == nil)
		bs, err = e.Encode(v)
	} else {
		s := NewSerializer(nil, nameMap)
		_, err = s.ToBytes(first)
		vAssert("first-noerr", err == nil)
		bs, err = s.ToBytes(v)
	}
	vAssert("encode-noerr", err == nil)
	b := newAVBuilder(nameMap)
	o := b.ord()
	a1 := b.zInnerP(v.A)
	a2 := b.zInnerP(v.B)
	l := b.list("[]int32", 1)
	l.Items = append(l.Items, avInt(7))
	exp := b.obj("ZRefHolder", []string{"a", "b", "l", "m"}, a1, a2, l, &AV{Kind: 'M', Ord: -1})
	exp.Ord = o
	checkWellFormed(bs, exp)
}

type ZTypedMix struct {
	Attrs ZAttrs
	L1    []int32
	L2    []int32
	L3    []string
}

// H_C02_type_names: every typed list and typed map carries its registered type name (literally, or by a reference
// the reference parser resolves to that same name), also when maps and lists of several types alternate.
func H_C02_type_names() {
	v := &ZTypedMix{Attrs: ZAttrs{"k": "v"}, L1: []int32{vInt32("x")}, L2: []int32{2, 3}, L3: []string{"s"}}
	if vChoice("emptyAttrs", 2) == 1 {
		v.Attrs = nil
	}
	_, nameMap := vExtract(v)
	bs, err := ToBytes(v, nameMap)
	vAssert("encode-noerr", err == nil)
	b := newAVBuilder(nameMap)
	o := b.ord()
	var attrs *AV
	if v.Attrs == nil {
		attrs = &AV{Kind: 'M', Ord: -1}
	} else {
		attrs = &AV{Kind: 'M', Type: "com.example.Attrs", Ord: b.ord(), Items: []*AV{avStr("k"), avStr("v")}}
	}
	l1 := b.list("[]int32", 1)
	l1.Items = append(l1.Items, avInt(v.L1[0]))
	l2 := b.list("[]int32", 2)
	l2.Items = append(l2.Items, avInt(2), avInt(3))
	l3 := b.list("[]string", 1)
	l3.Items = append(l3.Items, avStr("s"))
	exp := b.obj("ZTypedMix", []string{"attrs", "l1", "l2", "l3"}, attrs, l1, l2, l3)
	exp.Ord = o
	checkWellFormed(bs, exp)
}

type ZEdgeNames struct {
	Alpha int32
	Zulu  int32
	Mid   int32
	Azz   int32
	Zaa   int32
	B     int32
}

// ZAcronyms: names whose second letter is a capital too, with digits and underscores, a single capital.
type ZAcronyms struct {
	ID       int32
	URLPath  int32
	HTTPCode int32
	X        int32
	A1       int32
	Snake_Id int32
	UserID   int32
	UserId   int32
}

// H_C02_field_names_and_aliases: field names starting with the first and last letters of the alphabet are
// lower-cased like any other; slices that are prefixes of one another are separate lists on the wire.
func H_C02_field_names_and_aliases() {
	x := vInt32("x")
	what := vChoice("what", 3)
	if what == 2 {
		// only the first letter is lower-cased, whatever follows it; names equal under case folding stay apart
		v := &ZAcronyms{ID: x, URLPath: 2, HTTPCode: 3, X: 4, A1: 5, Snake_Id: 6, UserID: 7, UserId: 8}
		typMap, nameMap := vExtract(v)
		bs, err := ToBytes(v, nameMap)
		vAssert("encode-noerr", err == nil)
		exp := &AV{Kind: 'O', Type: "ZAcronyms", Fields: []string{"iD", "uRLPath", "hTTPCode", "x", "a1", "snake_Id", "userID", "userId"},
			Items: []*AV{avInt(x), avInt(2), avInt(3), avInt(4), avInt(5), avInt(6), avInt(7), avInt(8)}, Ord: 0}
		checkWellFormed(bs, exp)
		out, err := ToObject(bs, typMap)
		g, ok := out.(*ZAcronyms)
		vAssert("reads-back", err == nil && ok && g != nil && g.ID == x && g.URLPath == 2 && g.HTTPCode == 3 && g.X == 4 && g.A1 == 5 && g.Snake_Id == 6 && g.UserID == 7 && g.UserId == 8)
		return
	}
	if what == 0 {
		v := &ZEdgeNames{Alpha: x, Zulu: 2, Mid: 3, Azz: 4, Zaa: 5, B: 6}
		_, nameMap := vExtract(v)
		bs, err := ToBytes(v, nameMap)
		vAssert("encode-noerr", err == nil)
		exp := &AV{Kind: 'O', Type: "ZEdgeNames", Fields: []string{"alpha", "zulu", "mid", "azz", "zaa", "b"},
			Items: []*AV{avInt(x), avInt(2), avInt(3), avInt(4), avInt(5), avInt(6)}, Ord: 0}
		checkWellFormed(bs, exp)
		return
	}
	arr := []int32{x, 2, 3}
	v := &ZShare{Z: 1}
	if vChoice("order", 2) == 0 {
		v.A, v.B = arr[:2], arr[:1]
	} else {
		v.A, v.B = arr[:1], arr[:3]
	}
	_, nameMap := vExtract(v)
	bs, err := ToBytes(v, nameMap)
	vAssert("encode-noerr", err == nil)
	b := newAVBuilder(nameMap)
	o := b.ord()
	la := b.list("[]int32", len(v.A))
	for _, e := range v.A {
		la.Items = append(la.Items, avInt(e))
	}
	lb := b.list("[]int32", len(v.B))
	for _, e := range v.B {
		lb.Items = append(lb.Items, avInt(e))
	}
	lc := b.list("[]int32", 0)
	exp := b.obj("ZShare", []string{"a", "b", "c", "m", "n", "z"}, la, lb, lc, &AV{Kind: 'M', Ord: -1}, &AV{Kind: 'M', Ord: -1}, avInt(1))
	exp.Ord = o
	checkWellFormed(bs, exp)
}
