//go:build verif

package hessian

import (
	"math"
	"reflect"
	"time"
)

// Reference renderings of one abstract value in every form the Hessian 2.0 grammar allows (written from the
// grammar, not from gohessian's encoder). Each is decoded and compared with the decoding of gohessian's own
// rendering of the same value.

func be16(x int) []byte { return []byte{byte(x >> 8), byte(x)} }

// refStringForm: form 0 short (<=31), 1 two-octet x30-x33 (<=1023), 2 'S', 3.. 'R' chunk of the first `split`
// characters followed by the rest in form (form-3).
func refStringForm(rs []rune, form, split int) []byte {
	body := []byte(string(rs))
	switch form {
	case 0:
		return append([]byte{byte(len(rs))}, body...)
	case 1:
		return append([]byte{byte(0x30 + len(rs)>>8), byte(len(rs))}, body...)
	case 2:
		return append(append([]byte{'S'}, be16(len(rs))...), body...)
	}
	head := append(append([]byte{'R'}, be16(split)...), []byte(string(rs[:split]))...)
	return append(head, refStringForm(rs[split:], form-3, 0)...)
}

func refBinaryForm(b []byte, form, split int) []byte {
	switch form {
	case 0:
		return append([]byte{byte(0x20 + len(b))}, b...)
	case 1:
		return append([]byte{byte(0x34 + len(b)>>8), byte(len(b))}, b...)
	case 2:
		return append(append([]byte{'B'}, be16(len(b))...), b...)
	}
	head := append(append([]byte{'A'}, be16(split)...), b[:split]...)
	return append(head, refBinaryForm(b[split:], form-3, 0)...)
}

func decodeBoth(wire []byte, own interface{}, tm map[string]reflect.Type, nm map[string]string) (interface{}, interface{}) {
	ob, err := ToBytes(own, nm)
	vAssert("own-encodes", err == nil)
	want, err := ToObject(ob, tm)
	vAssert("own-decodes", err == nil)
	got, err := ToObject(wire, tm)
	vAssert("alt-decodes", err == nil)
	return want, got
}

// H_C03_numbers: compact and full-width ints, longs and doubles.
func H_C03_numbers() {
	switch vChoice("type", 3) {
	case 0:
		x := vInt32("x")
		var wire []byte
		switch vChoice("form", 4) {
		case 0:
			vAssume(x >= -16 && x <= 47)
			wire = []byte{byte(0x90 + x)}
		case 1:
			vAssume(x >= -2048 && x <= 2047)
			wire = []byte{byte(0xc8 + (x >> 8)), byte(x)}
		case 2:
			vAssume(x >= -262144 && x <= 262143)
			wire = []byte{byte(0xd4 + (x >> 16)), byte(x >> 8), byte(x)}
		case 3:
			wire = refInt(x)
		}
		want, got := decodeBoth(wire, x, nil, nil)
		g, ok := got.(int32)
		vAssert("int-same", ok && g == want.(int32))
	case 1:
		x := vInt64("x")
		var wire []byte
		switch vChoice("form", 5) {
		case 0:
			vAssume(x >= -8 && x <= 15)
			wire = []byte{byte(0xe0 + x)}
		case 1:
			vAssume(x >= -2048 && x <= 2047)
			wire = []byte{byte(0xf8 + (x >> 8)), byte(x)}
		case 2:
			vAssume(x >= -262144 && x <= 262143)
			wire = []byte{byte(0x3c + (x >> 16)), byte(x >> 8), byte(x)}
		case 3:
			vAssume(x >= -2147483648 && x <= 2147483647)
			wire = []byte{0x59, byte(x >> 24), byte(x >> 16), byte(x >> 8), byte(x)}
		case 4:
			wire = refLong(x)
		}
		want, got := decodeBoth(wire, x, nil, nil)
		g, ok := got.(int64)
		vAssert("long-same", ok && g == want.(int64))
	case 2:
		var x float64
		var wire []byte
		switch vChoice("form", 6) {
		case 0:
			x, wire = 0, []byte{0x5b}
		case 1:
			x, wire = 1, []byte{0x5c}
		case 2:
			b := vInt8("b")
			x, wire = float64(b), []byte{0x5d, byte(b)}
		case 3:
			s := vInt16("s")
			x, wire = float64(s), []byte{0x5e, byte(s >> 8), byte(s)}
		case 4:
			f := vFloat32("f")
			u := math.Float32bits(f)
			x, wire = float64(f), []byte{0x5f, byte(u >> 24), byte(u >> 16), byte(u >> 8), byte(u)}
		case 5:
			x = vFloat64("d")
			u := math.Float64bits(x)
			wire = []byte{'D', byte(u >> 56), byte(u >> 48), byte(u >> 40), byte(u >> 32), byte(u >> 24), byte(u >> 16), byte(u >> 8), byte(u)}
		}
		want, got := decodeBoth(wire, x, nil, nil)
		g, ok := got.(float64)
		vAssert("double-same", ok && eqF64(g, want.(float64)))
	}
}

// H_C03_chunks: every split of a short string / byte array into two chunks, every chunk-length form.
func H_C03_chunks() {
	n := 1 + vChoice("n", 4)
	if vChoice("kind", 2) == 0 {
		rs := make([]rune, n)
		for i := range rs {
			rs[i] = rune('a' + i)
		}
		rs[vChoice("pos", n)] = vScalar("r")
		form := vChoice("form", 6)
		split := 0
		if form >= 3 {
			split = vChoice("split", n+1)
		}
		wire := refStringForm(rs, form, split)
		want, got := decodeBoth(wire, string(rs), nil, nil)
		g, ok := got.(string)
		vAssert("string-same", ok && g == want.(string))
		// followed by another value: every chunk must consume exactly its own characters
		got2, err := ToObject(refCat([]byte{0x78 + 2}, wire, refInt(7)), nil)
		l, ok := got2.([]interface{})
		vAssert("string-framing", err == nil && ok && len(l) == 2)
		g2, ok1 := l[0].(string)
		i2, ok2 := l[1].(int32)
		vAssert("string-then-int", ok1 && ok2 && g2 == want.(string) && i2 == 7)
	} else {
		b := vBytes("b", n)
		form := vChoice("form", 6)
		split := 0
		if form >= 3 {
			split = vChoice("split", n+1)
		}
		wire := refBinaryForm(b, form, split)
		want, got := decodeBoth(wire, b, nil, nil)
		g, ok := got.([]byte)
		vAssert("binary-same", ok && eqBytes(g, want.([]byte)))
		got2, err := ToObject(refCat([]byte{0x78 + 2}, wire, refInt(7)), nil)
		l, ok := got2.([]interface{})
		vAssert("binary-framing", err == nil && ok && len(l) == 2)
		g2, ok1 := l[0].([]byte)
		i2, ok2 := l[1].(int32)
		vAssert("binary-then-int", ok1 && ok2 && eqBytes(g2, want.([]byte)) && i2 == 7)
	}
}

// H_C03_lists: fixed / variable length, typed / untyped, direct-length forms; type name literal or by
// back-reference to an earlier list of the same stream.
func H_C03_lists() {
	n := vChoice("n", 8) // 0..7 (the direct-length forms end at 7); variable-length lists grow as they are read: lengths around the growth steps matter
	xs := make([]int32, n)
	var elems []byte
	for i := range xs {
		xs[i] = int32(10 * (i + 1))
		if i == 0 {
			xs[i] = vInt32("x")
		}
		elems = append(elems, refInt(xs[i])...)
	}
	tm, nm := vExtract(xs)
	tname := nm["[]int32"]
	typ := refStr(tname)
	form := vChoice("form", 6)
	var one []byte
	typed := true
	switch form {
	case 0:
		one = refCat([]byte{0x55}, typ, elems, []byte{'Z'})
	case 1:
		one = refCat([]byte{'V'}, typ, refInt(int32(n)), elems)
	case 2:
		one = refCat([]byte{byte(0x70 + n)}, typ, elems) // direct length 0..7
	case 3:
		one, typed = refCat([]byte{0x57}, elems, []byte{'Z'}), false
	case 4:
		one, typed = refCat([]byte{0x58}, refInt(int32(n)), elems), false
	case 5:
		one, typed = refCat([]byte{byte(0x78 + n)}, elems), false // direct length 0..7
	}
	got, err := ToObject(one, tm)
	vAssert("alt-decodes", err == nil)
	if typed {
		g, ok := got.([]int32)
		vAssert("typed-same", ok && eqInt32s(g, xs))
		// second list of the same stream names its type by back-reference (index 0)
		two := refCat([]byte{0x78 + 2}, one, []byte{'V'}, refInt(0), refInt(int32(n)), elems)
		got2, err := ToObject(two, tm)
		vAssert("typeref-decodes", err == nil)
		l, ok := got2.([]interface{})
		vAssert("typeref-outer", ok && len(l) == 2)
		g2, ok := l[1].([]int32)
		vAssert("typeref-same", ok && eqInt32s(g2, xs))
		// every literal type name takes the next slot of the type table, repeated or not: after
		// "[int32", "[int32", "[string" the reference #2 is "[string" and #1 is "[int32"
		tm["[string"] = reflect.TypeOf([]string{})
		strs := refCat([]byte{'V'}, refStr("[string"), refInt(1), refStr("s"))
		three := refCat([]byte{0x78 + 5}, one, one, strs,
			[]byte{'V'}, refInt(2), refInt(1), refStr("t"),
			[]byte{'V'}, refInt(1), refInt(int32(n)), elems)
		got3, err := ToObject(three, tm)
		vAssert("typeref3-decodes", err == nil)
		l3, ok := got3.([]interface{})
		vAssert("typeref3-outer", ok && len(l3) == 5)
		s3, ok1 := l3[3].([]string)
		i3, ok2 := l3[4].([]int32)
		vAssert("typeref3-same", ok1 && ok2 && len(s3) == 1 && s3[0] == "t" && eqInt32s(i3, xs))
	} else {
		g, ok := got.([]interface{})
		vAssert("untyped-len", ok && len(g) == n)
		all := true
		for i := range xs {
			e, ok := g[i].(int32)
			all = vAnd(all, vAnd(ok, e == xs[i]))
		}
		vAssert("untyped-same", all)
	}
}

// H_C03_objects: short- and long-form instances; class definitions hoisted ahead of the value that uses them.
func H_C03_objects() {
	a, c := vInt32("a"), vInt64("c")
	tm := map[string]reflect.Type{"ZTriple": reflect.TypeOf(ZTriple{}), "ZInner": reflect.TypeOf(ZInner{})}
	defT := refClassDef("ZTriple", []string{"a", "b", "c"})
	defI := refClassDef("ZInner", []string{"n", "s"})
	body := refCat(refInt(a), refStr("bb"), refLong(c))
	var wire []byte
	switch vChoice("layout", 7) {
	case 0:
		wire = refCat(defT, []byte{0x60}, body)
	case 1:
		wire = refCat(defT, []byte{'O'}, refInt(0), body)
	case 2: // another definition first, then ours, then the instance (definitions anywhere before first use)
		wire = refCat(defI, defT, []byte{0x61}, body)
	case 3: // both definitions hoisted in front of a list that uses them later
		wire = refCat(defI, defT, []byte{0x78 + 2, 0x60}, refInt(1), refStr("s"), []byte{0x61}, body)
	case 4: // definition hoisted in front of a map value
		wire = refCat(defT, []byte{'H'}, refStr("k"), []byte{0x60}, body, []byte{'Z'})
	case 5, 6: // instances in the long 'O' form as values of struct-typed fields (by value and by pointer)
		tm2, _ := vExtractAll(&ZOuter{P: &ZInner{}})
		defO := refClassDef("ZOuter", []string{"a", "in", "p", "z"})
		inst := func(n int32) []byte { return refCat([]byte{'O'}, refInt(0), refInt(n), refStr("s")) }
		var w []byte
		if vChoice("layout56", 2) == 0 {
			w = refCat(defI, defO, []byte{0x61}, refInt(a), inst(7), inst(8), refLong(c))
		} else {
			w = refCat(defI, defO, []byte{'O'}, refInt(1), refInt(a), inst(7), []byte{'N'}, refLong(c))
		}
		got, err := ToObject(w, tm2)
		vAssert("alt-decodes", err == nil)
		g, ok := got.(*ZOuter)
		vAssert("outer", ok && g.A == a && g.Z == c && g.In.N == 7 && g.In.S == "s")
		return
	}
	got, err := ToObject(wire, tm)
	vAssert("alt-decodes", err == nil)
	var g *ZTriple
	switch x := got.(type) {
	case *ZTriple:
		g = x
	case []interface{}:
		vAssert("list-shape", len(x) == 2)
		in, ok := x[0].(*ZInner)
		vAssert("first-is-inner", ok && in.N == 1 && in.S == "s")
		g, _ = x[1].(*ZTriple)
	case map[interface{}]interface{}:
		g, _ = x["k"].(*ZTriple)
	}
	vAssert("object", g != nil)
	vAssert("fields", vAnd(g.A == a, vAnd(g.B == "bb", g.C == c)))
}

type ZListFields struct {
	Ps []*ZInner
	Ts []time.Time
	Ss []string
	Z  int32
}

// H_C03_list_fields: a struct whose slice fields arrive as untyped or variable-length lists (legal renderings a
// peer may choose), with null elements between non-null ones: nulls stay nil / zero, the others keep their place.
func H_C03_list_fields() {
	tm, _ := vExtractAll(&ZListFields{})
	x := vInt32("x")
	t1 := refCat([]byte{0x4a}, refLong(1500000000123)[1:])
	inner := func(n int32, idx int) []byte {
		if idx == 0 {
			return refCat(refClassDef("ZInner", []string{"n", "s"}), []byte{0x61}, refInt(n), refStr("s"))
		}
		return refCat([]byte{0x61}, refInt(n), refStr("s"))
	}
	form := vChoice("form", 4)
	wrap := func(items [][]byte) []byte {
		var body []byte
		for _, it := range items {
			body = append(body, it...)
		}
		switch form {
		case 0:
			return refCat([]byte{0x58}, refInt(int32(len(items))), body)
		case 1:
			return refCat([]byte{0x57}, body, []byte{'Z'})
		case 2:
			return refCat([]byte{byte(0x78 + len(items))}, body)
		default:
			return refCat([]byte{0x57}, body, []byte{'Z'})
		}
	}
	nul := []byte{'N'}
	ps := wrap([][]byte{inner(x, 0), nul, inner(7, 1)})
	ts := wrap([][]byte{t1, nul, t1, nul})
	ss := wrap([][]byte{refStr("a"), nul, refStr("c")})
	wire := refCat(refClassDef("ZListFields", []string{"ps", "ts", "ss", "z"}), []byte{0x60}, ps, ts, ss, refInt(9))
	out, err := ToObject(wire, tm)
	vAssert("alt-decodes", err == nil)
	g, ok := out.(*ZListFields)
	vAssert("type", ok && g.Z == 9)
	vAssert("ps", len(g.Ps) == 3 && g.Ps[0] != nil && g.Ps[1] == nil && g.Ps[2] != nil)
	vAssert("ps-values", vAnd(g.Ps[0].N == x, g.Ps[2].N == 7))
	vAssert("ts", len(g.Ts) == 4 && !g.Ts[0].IsZero() && g.Ts[1].IsZero() && !g.Ts[2].IsZero() && g.Ts[3].IsZero())
	vAssert("ts-values", g.Ts[0].Unix() == 1500000000 && g.Ts[2].Unix() == 1500000000)
	vAssert("ss", len(g.Ss) == 3 && g.Ss[0] == "a" && g.Ss[1] == "" && g.Ss[2] == "c")
}

// H_C03_length_forms: the two-octet and three-octet length forms of strings and binaries at lengths that use
// their high bits (256..1023 for x30-x33 / x34-x37, and 'S' / 'B' with lengths up to 1100).
func H_C03_length_forms() {
	n := []int{32, 255, 256, 257, 511, 512, 768, 1023}[vChoice("len", 8)]
	if vChoice("kind", 2) == 0 {
		rs := make([]rune, n)
		for i := range rs {
			rs[i] = rune('a' + i%26)
		}
		rs[n-1] = vScalar("r")
		form := 1 + vChoice("form", 2)
		wire := refStringForm(rs, form, 0)
		got, err := ToObject(refCat([]byte{0x78 + 2}, wire, refInt(7)), nil)
		l, ok := got.([]interface{})
		vAssert("string-framing", err == nil && ok && len(l) == 2)
		g, ok1 := l[0].(string)
		i2, ok2 := l[1].(int32)
		vAssert("string-same", ok1 && ok2 && g == string(rs) && i2 == 7)
		return
	}
	b := make([]byte, n)
	for i := range b {
		b[i] = byte(i)
	}
	b[n-1] = vUint8("b")
	form := 1 + vChoice("form", 2)
	wire := refBinaryForm(b, form, 0)
	got, err := ToObject(refCat([]byte{0x78 + 2}, wire, refInt(7)), nil)
	l, ok := got.([]interface{})
	vAssert("binary-framing", err == nil && ok && len(l) == 2)
	g, ok1 := l[0].([]byte)
	i2, ok2 := l[1].(int32)
	vAssert("binary-same", ok1 && ok2 && eqBytes(g, b) && i2 == 7)
}

// H_C03_maps_and_misc: typed ('M') and untyped ('H') maps at top level and into a map-typed struct field, the
// millisecond date form, booleans and nulls in fields.
func H_C03_maps_and_misc() {
	x := vInt32("x")
	switch vChoice("what", 6) {
	case 0: // untyped map at top level
		got, err := ToObject(refCat([]byte{'H'}, refStr("k"), refInt(x), refStr("j"), refStr("s"), []byte{'Z'}), nil)
		m, ok := got.(map[interface{}]interface{})
		vAssert("untyped-map", err == nil && ok && len(m) == 2)
		a, ok1 := m["k"].(int32)
		b, ok2 := m["j"].(string)
		vAssert("untyped-map-entries", ok1 && ok2 && a == x && b == "s")
	case 1: // typed map at top level: type name registered for a Go map type
		tm := map[string]reflect.Type{"java.util.HashMap": reflect.TypeOf(map[string]int32{})}
		got, err := ToObject(refCat([]byte{'M'}, refStr("java.util.HashMap"), refStr("k"), refInt(x), []byte{'Z'}), tm)
		m, ok := got.(map[string]int32)
		vAssert("typed-map", err == nil && ok && len(m) == 1 && m["k"] == x)
	case 2, 3: // a map-typed struct field receives a typed or an untyped map
		tm, _ := vExtractAll(&ZMaps{})
		var mp []byte
		if vChoice("typed", 2) == 1 {
			mp = refCat([]byte{'M'}, refStr("java.util.HashMap"), refStr("k"), refInt(x), refStr("l"), refInt(2), []byte{'Z'})
		} else {
			mp = refCat([]byte{'H'}, refStr("k"), refInt(x), refStr("l"), refInt(2), []byte{'Z'})
		}
		wire := refCat(refClassDef("ZMaps", []string{"m1", "m2"}), []byte{0x60}, mp, []byte{'N'})
		got, err := ToObject(wire, tm)
		g, ok := got.(*ZMaps)
		vAssert("map-field", err == nil && ok && len(g.M1) == 2 && len(g.M2) == 0)
		vAssert("map-field-entries", vAnd(g.M1["k"] == x, g.M1["l"] == 2))
	case 4: // millisecond date form, any 64-bit millisecond count that time.Unix can carry back
		ms := vInt64("ms")
		vAssume(ms >= -62135596800000)
		vAssume(ms <= 253402300799999)
		got, err := ToObject(refCat([]byte{0x4a}, refLong(ms)[1:]), nil)
		t, ok := got.(time.Time)
		vAssert("date-ms", err == nil && ok)
		vAssert("date-ms-value", t.Unix()*1000+int64(t.Nanosecond()/1000000) == ms)
	case 5: // booleans and null in fields
		tm, _ := vExtractAll(&ZScalars{})
		b := vBool("b")
		tag := byte('F')
		if b {
			tag = 'T'
		}
		wire := refCat(refClassDef("ZScalars", []string{"b", "s", "bs", "i32"}), []byte{0x60, tag, 'N', 'N'}, refInt(x))
		got, err := ToObject(wire, tm)
		g, ok := got.(*ZScalars)
		vAssert("bool-null-fields", err == nil && ok && g.B == b && g.S == "" && len(g.Bs) == 0 && g.I32 == x)
	}
}

// H_C03_long_lists: lists longer than the direct-length forms, at lengths on both sides of every step by which
// the decoder grows a list it is reading (16, 32, 64): fixed- and variable-length, typed and untyped renderings
// decode to the same Go value as the encoder's own rendering.
func H_C03_long_lists() {
	n := []int{8, 15, 16, 17, 20, 31, 32, 33, 63, 64, 65, 129}[vChoice("n", 12)]
	xs := make([]int32, n)
	var elems []byte
	for i := range xs {
		xs[i] = int32(i % 40)
	}
	xs[n-1] = vInt32("x")
	for i := range xs {
		elems = append(elems, refInt(xs[i])...)
	}
	tm, nm := vExtract(xs)
	typ := refStr(nm["[]int32"])
	own, err := ToBytes(xs, nm)
	vAssert("own-encodes", err == nil)
	want, err := ToObject(own, tm)
	w, okw := want.([]int32)
	vAssert("own-decodes", err == nil && okw && eqInt32s(w, xs))
	var alt []byte
	typed := true
	switch vChoice("form", 4) {
	case 0:
		alt = refCat([]byte{0x55}, typ, elems, []byte{'Z'})
	case 1:
		alt = refCat([]byte{'V'}, typ, refInt(int32(n)), elems)
	case 2:
		alt, typed = refCat([]byte{0x57}, elems, []byte{'Z'}), false
	case 3:
		alt, typed = refCat([]byte{0x58}, refInt(int32(n)), elems), false
	}
	got, err := ToObject(alt, tm)
	vAssert("alt-decodes", err == nil)
	if typed {
		g, ok := got.([]int32)
		vAssert("typed-same", ok && eqInt32s(g, xs))
	} else {
		g, ok := got.([]interface{})
		vAssert("untyped-length", ok && len(g) == n)
		last, okl := g[n-1].(int32)
		first, okf := g[0].(int32)
		vAssert("untyped-elements", okl && last == xs[n-1] && okf && first == xs[0])
	}
}
