//go:build verif

package hessian

import "time"

// ---- type zoo ----

type ZScalars struct {
	B   bool
	I8  int8
	I16 int16
	I32 int32
	I   int
	I64 int64
	U8  uint8
	U16 uint16
	U32 uint32
	U   uint
	U64 uint64
	F32 float32
	F64 float64
	S   string
	Bs  []byte
	T   time.Time
}

type ZInner struct {
	N int32
	S string
}

type ZOuter struct {
	A  int32
	In ZInner
	P  *ZInner
	Z  int64
}

type ZEmbed struct {
	ZInner
	X int32
}

type ZLists struct {
	Ss []string
	Is []int32
	Ls []int64
	Fs []float64
	Ps []*ZInner
}

type ZMaps struct {
	M1 map[string]int32
	M2 map[int32]string
}

type ZNamed struct {
	V int32
}

func (ZNamed) HessianCodecName() string { return "com.example.Named" }

// ---- comparators (hand-written; only the normalisations C01 documents are forgiven) ----

func eqF64(a, b float64) bool { return vOr(a == b, vAnd(a != a, b != b)) }
func eqF32(a, b float32) bool { return vOr(a == b, vAnd(a != a, b != b)) }

// eqInstant: same instant at millisecond resolution.
func eqInstant(a, b time.Time) bool {
	return vAnd(a.Unix() == b.Unix(), a.Nanosecond()/1000000 == b.Nanosecond()/1000000)
}

func eqBytes(a, b []byte) bool {
	if len(a) != len(b) {
		return false
	}
	ok := true
	for i := range a {
		ok = vAnd(ok, a[i] == b[i])
	}
	return ok
}

func eqZScalars(a, b *ZScalars) bool {
	ok := a.B == b.B
	ok = vAnd(ok, a.I8 == b.I8)
	ok = vAnd(ok, a.I16 == b.I16)
	ok = vAnd(ok, a.I32 == b.I32)
	ok = vAnd(ok, a.I == b.I)
	ok = vAnd(ok, a.I64 == b.I64)
	ok = vAnd(ok, a.U8 == b.U8)
	ok = vAnd(ok, a.U16 == b.U16)
	ok = vAnd(ok, a.U32 == b.U32)
	ok = vAnd(ok, a.U == b.U)
	ok = vAnd(ok, a.U64 == b.U64)
	ok = vAnd(ok, eqF32(a.F32, b.F32))
	ok = vAnd(ok, eqF64(a.F64, b.F64))
	ok = vAnd(ok, a.S == b.S)
	ok = vAnd(ok, eqBytes(a.Bs, b.Bs))
	ok = vAnd(ok, eqInstant(a.T, b.T))
	return ok
}

func eqZInner(a, b *ZInner) bool { return vAnd(a.N == b.N, a.S == b.S) }

func eqZInnerP(a, b *ZInner) bool {
	if a == nil || b == nil {
		return a == nil && b == nil
	}
	return eqZInner(a, b)
}

func eqZOuter(a, b *ZOuter) bool {
	ok := vAnd(a.A == b.A, a.Z == b.Z)
	ok = vAnd(ok, eqZInner(&a.In, &b.In))
	if (a.P == nil) != (b.P == nil) {
		return false
	}
	if a.P != nil {
		ok = vAnd(ok, eqZInner(a.P, b.P))
	}
	return ok
}

func eqStrings(a, b []string) bool {
	if len(a) != len(b) {
		return false
	}
	ok := true
	for i := range a {
		ok = vAnd(ok, a[i] == b[i])
	}
	return ok
}

func eqInt32s(a, b []int32) bool {
	if len(a) != len(b) {
		return false
	}
	ok := true
	for i := range a {
		ok = vAnd(ok, a[i] == b[i])
	}
	return ok
}

func eqInt64s(a, b []int64) bool {
	if len(a) != len(b) {
		return false
	}
	ok := true
	for i := range a {
		ok = vAnd(ok, a[i] == b[i])
	}
	return ok
}

func eqF64s(a, b []float64) bool {
	if len(a) != len(b) {
		return false
	}
	ok := true
	for i := range a {
		ok = vAnd(ok, eqF64(a[i], b[i]))
	}
	return ok
}

func eqInnerPs(a, b []*ZInner) bool {
	if len(a) != len(b) {
		return false
	}
	ok := true
	for i := range a {
		if (a[i] == nil) != (b[i] == nil) {
			return false
		}
		if a[i] != nil {
			ok = vAnd(ok, eqZInner(a[i], b[i]))
		}
	}
	return ok
}

func eqZLists(a, b *ZLists) bool {
	ok := eqStrings(a.Ss, b.Ss)
	ok = vAnd(ok, eqInt32s(a.Is, b.Is))
	ok = vAnd(ok, eqInt64s(a.Ls, b.Ls))
	ok = vAnd(ok, eqF64s(a.Fs, b.Fs))
	ok = vAnd(ok, eqInnerPs(a.Ps, b.Ps))
	return ok
}

// eqMapSI: same entries (nil and empty identified).
func eqMapSI(a, b map[string]int32) bool {
	if len(a) != len(b) {
		return false
	}
	ok := true
	for k, v := range a {
		w, has := b[k]
		if !has {
			return false
		}
		ok = vAnd(ok, v == w)
	}
	return ok
}

func eqMapIS(a, b map[int32]string) bool {
	if len(a) != len(b) {
		return false
	}
	ok := true
	for k, v := range a {
		w, has := b[k]
		if !has {
			return false
		}
		ok = vAnd(ok, v == w)
	}
	return ok
}

// ---- many distinct classes in one message (class counts 1..20: definition indexes 2, 15, 16, 17 are crossed) ----

type ZK00 struct{ V int32 }
type ZK01 struct{ V int32 }
type ZK02 struct{ V int32 }
type ZK03 struct{ V int32 }
type ZK04 struct{ V int32 }
type ZK05 struct{ V int32 }
type ZK06 struct{ V int32 }
type ZK07 struct{ V int32 }
type ZK08 struct{ V int32 }
type ZK09 struct{ V int32 }
type ZK10 struct{ V int32 }
type ZK11 struct{ V int32 }
type ZK12 struct{ V int32 }
type ZK13 struct{ V int32 }
type ZK14 struct{ V int32 }
type ZK15 struct{ V int32 }
type ZK16 struct{ V int32 }
type ZK17 struct{ V int32 }
type ZK18 struct{ V int32 }

// zManyClasses: a message with n distinct classes, one instance each, then a second instance of class `again`.
func zManyClasses(n int, x int32, again int) []interface{} {
	all := []interface{}{&ZK00{x}, &ZK01{1}, &ZK02{2}, &ZK03{3}, &ZK04{4}, &ZK05{5}, &ZK06{6}, &ZK07{7}, &ZK08{8}, &ZK09{9},
		&ZK10{10}, &ZK11{11}, &ZK12{12}, &ZK13{13}, &ZK14{14}, &ZK15{15}, &ZK16{16}, &ZK17{17}, &ZK18{18}}
	out := append([]interface{}{}, all[:n]...)
	if again >= 0 && again < n {
		switch v := all[again].(type) {
		case *ZK00:
			out = append(out, &ZK00{v.V + 100})
		case *ZK02:
			out = append(out, &ZK02{v.V + 100})
		case *ZK15:
			out = append(out, &ZK15{v.V + 100})
		case *ZK16:
			out = append(out, &ZK16{v.V + 100})
		case *ZK17:
			out = append(out, &ZK17{v.V + 100})
		default:
			out = append(out, all[again])
		}
	}
	return out
}

// zClassV reads the V field of a ZKnn instance (nil / wrong type gives -1).
func zClassV(v interface{}) int32 {
	switch x := v.(type) {
	case *ZK00:
		return x.V
	case *ZK01:
		return x.V
	case *ZK02:
		return x.V
	case *ZK03:
		return x.V
	case *ZK04:
		return x.V
	case *ZK05:
		return x.V
	case *ZK06:
		return x.V
	case *ZK07:
		return x.V
	case *ZK08:
		return x.V
	case *ZK09:
		return x.V
	case *ZK10:
		return x.V
	case *ZK11:
		return x.V
	case *ZK12:
		return x.V
	case *ZK13:
		return x.V
	case *ZK14:
		return x.V
	case *ZK15:
		return x.V
	case *ZK16:
		return x.V
	case *ZK17:
		return x.V
	case *ZK18:
		return x.V
	}
	return -1
}

func zClassName(i int) string {
	return "ZK" + string(rune('0'+i/10)) + string(rune('0'+i%10))
}
