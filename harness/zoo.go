//go:build verif

package hessian

import "time"

// ---- type zoo ----

type ZScalars struct {
	B   bool
	I8  int8
	I16 int16
	I32 int32
	I   int
	I64 int64
	U8  uint8
	U16 uint16
	U32 uint32
	U   uint
	U64 uint64
	F32 float32
	F64 float64
	S   string
	Bs  []byte
	T   time.Time
}

type ZInner struct {
	N int32
	S string
}

type ZOuter struct {
	A  int32
	In ZInner
	P  *ZInner
	Z  int64
}

type ZEmbed struct {
	ZInner
	X int32
}

type ZLists struct {
	Ss []string
	Is []int32
	Ls []int64
	Fs []float64
	Ps []*ZInner
}

type ZMaps struct {
	M1 map[string]int32
	M2 map[int32]string
}

type ZNamed struct {
	V int32
}

func (ZNamed) HessianCodecName() string { return "com.example.Named" }

// ---- comparators (hand-written; only the normalisations C01 documents are forgiven) ----

func eqF64(a, b float64) bool { return vOr(a == b, vAnd(a != a, b != b)) }
func eqF32(a, b float32) bool { return vOr(a == b, vAnd(a != a, b != b)) }

// eqInstant: same instant at millisecond resolution.
func eqInstant(a, b time.Time) bool {
	return vAnd(a.Unix() == b.Unix(), a.Nanosecond()/1000000 == b.Nanosecond()/1000000)
}

func eqBytes(a, b []byte) bool {
	if len(a) != len(b) {
		return false
	}
	ok := true
	for i := range a {
		ok = vAnd(ok, a[i] == b[i])
	}
	return ok
}

func eqZScalars(a, b *ZScalars) bool {
	ok := a.B == b.B
	ok = vAnd(ok, a.I8 == b.I8)
	ok = vAnd(ok, a.I16 == b.I16)
	ok = vAnd(ok, a.I32 == b.I32)
	ok = vAnd(ok, a.I == b.I)
	ok = vAnd(ok, a.I64 == b.I64)
	ok = vAnd(ok, a.U8 == b.U8)
	ok = vAnd(ok, a.U16 == b.U16)
	ok = vAnd(ok, a.U32 == b.U32)
	ok = vAnd(ok, a.U == b.U)
	ok = vAnd(ok, a.U64 == b.U64)
	ok = vAnd(ok, eqF32(a.F32, b.F32))
	ok = vAnd(ok, eqF64(a.F64, b.F64))
	ok = vAnd(ok, a.S == b.S)
	ok = vAnd(ok, eqBytes(a.Bs, b.Bs))
	ok = vAnd(ok, eqInstant(a.T, b.T))
	return ok
}

func eqZInner(a, b *ZInner) bool { return vAnd(a.N == b.N, a.S == b.S) }

func eqZInnerP(a, b *ZInner) bool {
	if a == nil || b == nil {
		return a == nil && b == nil
	}
	return eqZInner(a, b)
}

func eqZOuter(a, b *ZOuter) bool {
	ok := vAnd(a.A == b.A, a.Z == b.Z)
	ok = vAnd(ok, eqZInner(&a.In, &b.In))
	if (a.P == nil) != (b.P == nil) {
		return false
	}
	if a.P != nil {
		ok = vAnd(ok, eqZInner(a.P, b.P))
	}
	return ok
}

func eqStrings(a, b []string) bool {
	if len(a) != len(b) {
		return false
	}
	ok := true
	for i := range a {
		ok = vAnd(ok, a[i] == b[i])
	}
	return ok
}

func eqInt32s(a, b []int32) bool {
	if len(a) != len(b) {
		return false
	}
	ok := true
	for i := range a {
		ok = vAnd(ok, a[i] == b[i])
	}
	return ok
}

func eqInt64s(a, b []int64) bool {
	if len(a) != len(b) {
		return false
	}
	ok := true
	for i := range a {
		ok = vAnd(ok, a[i] == b[i])
	}
	return ok
}

func eqF64s(a, b []float64) bool {
	if len(a) != len(b) {
		return false
	}
	ok := true
	for i := range a {
		ok = vAnd(ok, eqF64(a[i], b[i]))
	}
	return ok
}

func eqInnerPs(a, b []*ZInner) bool {
	if len(a) != len(b) {
		return false
	}
	ok := true
	for i := range a {
		if (a[i] == nil) != (b[i] == nil) {
			return false
		}
		if a[i] != nil {
			ok = vAnd(ok, eqZInner(a[i], b[i]))
		}
	}
	return ok
}

func eqZLists(a, b *ZLists) bool {
	ok := eqStrings(a.Ss, b.Ss)
	ok = vAnd(ok, eqInt32s(a.Is, b.Is))
	ok = vAnd(ok, eqInt64s(a.Ls, b.Ls))
	ok = vAnd(ok, eqF64s(a.Fs, b.Fs))
	ok = vAnd(ok, eqInnerPs(a.Ps, b.Ps))
	return ok
}

// eqMapSI: same entries (nil and empty identified).
func eqMapSI(a, b map[string]int32) bool {
	if len(a) != len(b) {
		return false
	}
	ok := true
	for k, v := range a {
		w, has := b[k]
		if !has {
			return false
		}
		ok = vAnd(ok, v == w)
	}
	return ok
}

func eqMapIS(a, b map[int32]string) bool {
	if len(a) != len(b) {
		return false
	}
	ok := true
	for k, v := range a {
		w, has := b[k]
		if !has {
			return false
		}
		ok = vAnd(ok, v == w)
	}
	return ok
}
