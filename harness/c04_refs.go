//go:build verif

package hessian

import "time"

type ZNode struct {
	Id     int32
	FM     map[string]int32
	FS     []int32
	FT     time.Time
	FStr   string
	FB     []byte
	FP     *ZInner
	Next   *ZNode
	Kids   []*ZNode
	ByName map[string]*ZNode
}

// zFiller puts one kind of non-container / empty filler in front of the pointer fields of n.
func zFiller(n *ZNode, kind int) {
	// plain, non-empty defaults
	n.FM = map[string]int32{"m": 1}
	n.FS = []int32{4}
	n.FT = time.Unix(1500000000, 500000000)
	n.FStr = "f"
	n.FB = []byte{9}
	n.FP = &ZInner{N: 1, S: "i"}
	switch kind {
	case 1:
		n.FM = nil
	case 2:
		n.FM = map[string]int32{}
	case 3:
		n.FS = nil
	case 4:
		n.FS = []int32{}
	case 5:
		n.FT = time.Time{}
	case 6:
		n.FT = time.Unix(1500000000, 0)
	case 7:
		n.FStr = ""
	case 8:
		n.FB = nil
	case 9:
		n.FP = nil
	case 10:
		n.FM, n.FS, n.FB, n.FP, n.FStr, n.FT = nil, nil, nil, nil, "", time.Time{}
	}
}

func zPick(nodes []*ZNode, c int) *ZNode {
	if c == 0 {
		return nil
	}
	return nodes[c-1]
}

// zStep follows one edge; step 0: Next, 1: Kids[0], 2: Kids[1], 3: ByName["a"], 4: ByName["b"].
func zStep(n *ZNode, s int) *ZNode {
	if n == nil {
		return nil
	}
	switch s {
	case 0:
		return n.Next
	case 1:
		if len(n.Kids) > 0 {
			return n.Kids[0]
		}
	case 2:
		if len(n.Kids) > 1 {
			return n.Kids[1]
		}
	case 3:
		return n.ByName["a"]
	case 4:
		return n.ByName["b"]
	}
	return nil
}

func zPaths(root *ZNode, depth int) []*ZNode {
	out := []*ZNode{root}
	frontier := []*ZNode{root}
	for d := 0; d < depth; d++ {
		var next []*ZNode
		for _, n := range frontier {
			for s := 0; s < 5; s++ {
				m := zStep(n, s)
				out = append(out, m)
				next = append(next, m)
			}
		}
		frontier = next
	}
	return out
}

func checkGraph(orig, dec *ZNode, depth int) {
	po, pd := zPaths(orig, depth), zPaths(dec, depth)
	same := true
	for i := range po {
		if (po[i] == nil) != (pd[i] == nil) {
			same = false
		}
	}
	vAssert("same-nil-pattern", same)
	ident := true
	payload := true
	for i := range po {
		if po[i] == nil {
			continue
		}
		payload = vAnd(payload, po[i].Id == pd[i].Id)
		for j := i + 1; j < len(po); j++ {
			if po[j] == nil {
				continue
			}
			if (po[i] == po[j]) != (pd[i] == pd[j]) {
				ident = false
			}
		}
	}
	vAssert("same-sharing", ident)
	vAssert("same-payload", payload)
}

// H_C04_graph: every edge assignment over k nodes (each Next / Kids / ByName slot in {nil, n0..}), with one
// kind of filler in front of the pointer fields: encoding terminates, decoding succeeds, and two access
// paths lead to the same object in the decoded graph exactly when they did in the original.
func H_C04_graph() {
	k := 2
	thorough := vTier() == 1
	nodes := make([]*ZNode, k)
	for i := range nodes {
		nodes[i] = &ZNode{Id: int32(i + 1)}
	}
	// payload of the root is arbitrary (one-octet ints in the quick tier: payload forms are C07's subject)
	nodes[0].Id = vInt32("id")
	filler := vChoice("filler", 11)
	// the thorough tier adds a richer edge menu (empty kid lists, two-entry maps) for three of the fillers and lets
	// the payload take every int form with the first one; the full product of forms x fillers x rich edges (about
	// 2 million paths) did not finish within the wall limit and is outside the claim
	rich := thorough && (filler == 0 || filler == 5 || filler == 10) && vChoice("rich", 2) == 1
	if !(thorough && filler == 0 && !rich) {
		vAssume(nodes[0].Id >= 0)
		vAssume(nodes[0].Id <= 40)
	}
	thorough = rich
	for _, n := range nodes {
		zFiller(n, filler)
	}
	for _, n := range nodes {
		n.Next = zPick(nodes, vChoice("next", k+1))
		nk := 3
		if thorough {
			nk = 4
		}
		switch vChoice("kids", nk) {
		case 1:
			n.Kids = []*ZNode{nodes[0]}
		case 2:
			n.Kids = []*ZNode{nodes[k-1], nodes[0]}
		case 3:
			n.Kids = []*ZNode{}
		}
		nb := 2
		if thorough {
			nb = 3
		}
		switch vChoice("byname", nb) {
		case 1:
			n.ByName = map[string]*ZNode{"a": nodes[k-1]}
		case 2:
			n.ByName = map[string]*ZNode{"a": nodes[0], "b": n}
		}
	}
	root := nodes[0]
	typMap, nameMap := vExtract(root)
	vStepLimit(400000)
	var bs []byte
	var err error
	switch api := vChoice("api", 3); {
	case api == 0:
		bs, err = ToBytes(root, nameMap)
	case api == 2:
		// without registered list names every list travels untyped and is converted on the way back
		bs, err = ToBytes(root, nil)
	default:
		// the second message of a reused serializer that has already sent the same objects
		s := NewSerializer(typMap, nameMap)
		_, err = s.ToBytes(nodes[k-1])
		vAssert("first-message-noerr", err == nil)
		vStepLimit(400000)
		bs, err = s.ToBytes(root)
	}
	vAssert("encode-noerr", err == nil)
	out, err := ToObject(bs, typMap)
	vStepLimit(0)
	vAssert("decode-noerr", err == nil)
	dec, ok := out.(*ZNode)
	vAssert("type", ok && dec != nil)
	checkGraph(root, dec, 3)
}

type ZShare struct {
	A []int32
	B []int32
	C []int32
	M map[string]int32
	N map[string]int32
	Z int32
}

// H_C04_shared_containers: the same slice or map in two fields, slices that are prefixes of one another or share
// a backing array (an empty slice with spare capacity in front of a longer one): every field comes back with its
// own contents, whatever the encoder decides to send as a back-reference.
func H_C04_shared_containers() {
	x := vInt32("x")
	arr := []int32{x, 2, 3, 4}
	m := map[string]int32{"k": x}
	v := &ZShare{Z: 9}
	switch vChoice("shape", 7) {
	case 0:
		v.A, v.B = arr, arr
	case 1:
		v.A, v.B = arr[:1], arr[:3]
	case 2:
		v.A, v.B = arr[:3], arr[:1]
	case 3:
		v.A, v.B, v.C = arr[:0], arr[:2], arr[1:3]
	case 4:
		v.M, v.N = m, m
	case 5:
		v.A, v.B, v.C = arr, arr[2:], arr
	case 6:
		v.A, v.C = make([]int32, 0, 4), []int32{}
		v.B = v.A[:2]
		v.B[0], v.B[1] = x, 7
	}
	typMap, nameMap := vExtract(v)
	bs, err := ToBytes(v, nameMap)
	vAssert("encode-noerr", err == nil)
	out, err := ToObject(bs, typMap)
	vAssert("decode-noerr", err == nil)
	g, ok := out.(*ZShare)
	vAssert("type", ok && g.Z == 9)
	vAssert("a", eqInt32s(g.A, v.A))
	vAssert("b", eqInt32s(g.B, v.B))
	vAssert("c", eqInt32s(g.C, v.C))
	vAssert("m", len(g.M) == len(v.M) && g.M["k"] == v.M["k"])
	vAssert("n", len(g.N) == len(v.N) && g.N["k"] == v.N["k"])
}
