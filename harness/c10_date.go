//go:build verif

package hessian

import "time"

const (
	vMinSec = -62135596800 // 0001-01-01T00:00:00Z
	vMaxSec = 253402300799 // 9999-12-31T23:59:59Z
)

// vInstant: an arbitrary instant in years 1..9999: whole milliseconds plus a sub-millisecond part.
func vInstant() (t time.Time, sub int64) {
	sec := vInt64("sec")
	ms := vInt64("ms")
	sub = vInt64("sub")
	vAssume(sec >= vMinSec)
	vAssume(sec <= vMaxSec)
	vAssume(ms >= 0)
	vAssume(ms <= 999)
	vAssume(sub >= 0)
	vAssume(sub <= 999999)
	return time.Unix(sec, ms*1000000+sub), sub
}

func vCheckInstant(id string, t, got time.Time, sub int64) {
	if sub == 0 {
		vAssert(id+"-sec", got.Unix() == t.Unix())
		vAssert(id+"-nsec", got.Nanosecond() == t.Nanosecond())
		return
	}
	// |t-got| < 1ms, stated without multiplying a symbolic difference (both nanosecond parts are in [0,1e9))
	ds := t.Unix() - got.Unix()
	dn := int64(t.Nanosecond()) - int64(got.Nanosecond())
	switch {
	case ds == 0:
		vAssert(id+"-within-1ms", dn < 1000000 && dn > -1000000)
	case ds == 1:
		vAssert(id+"-within-1ms-next-sec", dn+1000000000 < 1000000)
	case ds == -1:
		vAssert(id+"-within-1ms-prev-sec", dn-1000000000 > -1000000)
	default:
		vAssert(id+"-within-1ms-far", false)
	}
}

// H_C10_date_kernel: encodeDate/decodeDateValue over every instant of years 1..9999.
func H_C10_date_kernel() {
	vArith(1)
	t, sub := vInstant()
	b := encodeDate(t)
	if t.IsZero() {
		vAssert("zero-is-null", len(b) == 1 && b[0] == 'N')
		return
	}
	got, err := decodeDateValue(vReader(b), _tagRead)
	vAssert("noerr", err == nil)
	vCheckInstant("rt", t, got, sub)
}
