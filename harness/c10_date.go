//go:build verif

package hessian

import "time"

const (
	vMinSec = -62135596800 // 0001-01-01T00:00:00Z
	vMaxSec = 253402300799 // 9999-12-31T23:59:59Z
)

// vInstant: an arbitrary instant in years 1..9999: whole milliseconds plus a sub-millisecond part.
func vInstant() (t time.Time, sub int64) {
	sec := vInt64("sec")
	ms := vInt64("ms")
	sub = vInt64("sub")
	vAssume(sec >= vMinSec)
	vAssume(sec <= vMaxSec)
	vAssume(ms >= 0)
	vAssume(ms <= 999)
	vAssume(sub >= 0)
	vAssume(sub <= 999999)
	return time.Unix(sec, ms*1000000+sub), sub
}

func vCheckInstant(id string, t, got time.Time, sub int64) {
	if sub == 0 {
		vAssert(id+"-sec", got.Unix() == t.Unix())
		vAssert(id+"-nsec", got.Nanosecond() == t.Nanosecond())
		return
	}
	// |t-got| < 1ms, stated without multiplying a symbolic difference (both nanosecond parts are in [0,1e9))
	ds := t.Unix() - got.Unix()
	dn := int64(t.Nanosecond()) - int64(got.Nanosecond())
	switch {
	case ds == 0:
		vAssert(id+"-within-1ms", dn < 1000000 && dn > -1000000)
	case ds == 1:
		vAssert(id+"-within-1ms-next-sec", dn+1000000000 < 1000000)
	case ds == -1:
		vAssert(id+"-within-1ms-prev-sec", dn-1000000000 > -1000000)
	default:
		vAssert(id+"-within-1ms-far", false)
	}
}

// H_C10_date_kernel: encodeDate/decodeDateValue over every instant of years 1..9999.
func H_C10_date_kernel() {
	vArith(1)
	t, sub := vInstant()
	b := encodeDate(t)
	if t.IsZero() {
		vAssert("zero-is-null", len(b) == 1 && b[0] == 'N')
		return
	}
	got, err := decodeDateValue(vReader(b), _tagRead)
	vAssert("noerr", err == nil)
	vCheckInstant("rt", t, got, sub)
}

type ZTimes struct {
	A  int32
	T  time.Time
	Ts []time.Time
}

type ZTimePtr struct {
	A int32
	P *time.Time
	Q *time.Time
}

// H_C10_positions: instants in a struct field, in []time.Time and at top level; the zero time in a field.
func H_C10_positions() {
	vArith(1)
	t, sub := vInstant()
	switch vChoice("where", 9) {
	case 7: // the instant reaches the encoder behind a pointer
		vAssume(!t.IsZero())
		bs, err := ToBytes(&t, nil)
		vAssert("encode-noerr", err == nil)
		out, err := ToObject(bs, nil)
		g, ok := out.(time.Time)
		vAssert("decode", err == nil && ok)
		vCheckInstant("top-pointer", t, g, sub)
	case 8: // a *time.Time field (the second one nil)
		vAssume(!t.IsZero())
		v := &ZTimePtr{A: 1, P: &t}
		tm, nm := vExtract(v)
		bs, err := ToBytes(v, nm)
		vAssert("encode-noerr", err == nil)
		out, err := ToObject(bs, tm)
		g, ok := out.(*ZTimePtr)
		vAssert("decode", err == nil && ok && g != nil && g.A == 1 && g.P != nil && g.Q == nil)
		vCheckInstant("pointer-field", t, *g.P, sub)
	case 6:
		// zero timestamps between non-zero ones in a []time.Time field, sent without a registered list name
		// (the list then travels untyped and is converted element by element on the way back)
		vAssume(!t.IsZero())
		v := &ZTimes{A: 1, Ts: []time.Time{t, {}, t, {}}}
		tm, _ := vExtract(v)
		bs, err := ToBytes(v, nil)
		vAssert("encode-noerr", err == nil)
		out, err := ToObject(bs, tm)
		g, ok := out.(*ZTimes)
		vAssert("decode", err == nil && ok && len(g.Ts) == 4)
		vAssert("zero-elements-stay-zero", g.Ts[1].IsZero() && g.Ts[3].IsZero())
		vCheckInstant("elem0", t, g.Ts[0], sub)
		vCheckInstant("elem2", t, g.Ts[2], sub)
	case 4:
		// a reader may return fewer octets than asked for: one octet per Read call
		vAssume(!t.IsZero())
		bs, err := ToBytes(t, nil)
		vAssert("encode-noerr", err == nil)
		out, err := NewDecoder(nil, nil).ReadFrom(&vDribbleReader{vCountingReader{b: bs}})
		g, ok := out.(time.Time)
		vAssert("decode", err == nil && ok)
		vCheckInstant("dribble", t, g, sub)
	case 5:
		// the date sits across the buffered reader's 4096-octet refill boundary
		vAssume(!t.IsZero())
		pad := make([]byte, 4087-2*vChoice("shift", 3))
		v := []interface{}{pad, t}
		bs, err := ToBytes(v, nil)
		vAssert("encode-noerr", err == nil)
		out, err := ToObject(bs, nil)
		l, ok := out.([]interface{})
		vAssert("decode", err == nil && ok && len(l) == 2)
		g, ok := l[1].(time.Time)
		vAssert("decode-time", ok)
		vCheckInstant("boundary", t, g, sub)
	case 0:
		v := &ZTimes{A: 1, T: t}
		tm, nm := vExtract(v)
		bs, err := ToBytes(v, nm)
		vAssert("encode-noerr", err == nil)
		out, err := ToObject(bs, tm)
		g, ok := out.(*ZTimes)
		vAssert("decode", err == nil && ok && g.A == 1)
		if t.IsZero() {
			vAssert("zero-field", g.T.IsZero())
		} else {
			vCheckInstant("field", t, g.T, sub)
		}
	case 1:
		vAssume(!t.IsZero())
		v := &ZTimes{A: 1, Ts: []time.Time{t}}
		tm, nm := vExtract(v)
		bs, err := ToBytes(v, nm)
		vAssert("encode-noerr", err == nil)
		out, err := ToObject(bs, tm)
		g, ok := out.(*ZTimes)
		vAssert("decode", err == nil && ok && len(g.Ts) == 1)
		vCheckInstant("elem", t, g.Ts[0], sub)
	case 2:
		vAssume(!t.IsZero())
		bs, err := ToBytes(t, nil)
		vAssert("encode-noerr", err == nil)
		out, err := ToObject(bs, nil)
		g, ok := out.(time.Time)
		vAssert("decode", err == nil && ok)
		vCheckInstant("top", t, g, sub)
	case 3:
		v := &ZTimes{A: 2}
		tm, nm := vExtract(v)
		bs, err := ToBytes(v, nm)
		vAssert("encode-noerr", err == nil)
		av, _, p := refParse(bs)
		vAssert("zero-is-null-on-the-wire", p.err == "" && av.Kind == 'O' && len(av.Items) == 3 && av.Items[1].Kind == 'N')
		out, err := ToObject(bs, tm)
		g, ok := out.(*ZTimes)
		vAssert("zero-field-back", err == nil && ok && g.T.IsZero() && g.A == 2)
	}
}
