//go:build verif

package hessian

import (
	"io"
	"reflect"
	"unicode/utf8"
)

// vCountingReader hands out exactly the bytes asked for: no read-ahead, so its offset is the decoder's.
type vCountingReader struct {
	b   []byte
	off int
}

func (r *vCountingReader) Read(p []byte) (int, error) {
	if r.off >= len(r.b) {
		return 0, io.EOF
	}
	n := copy(p, r.b[r.off:])
	r.off += n
	return n, nil
}

func (r *vCountingReader) ReadRune() (rune, int, error) {
	if r.off >= len(r.b) {
		return 0, 0, io.EOF
	}
	c := r.b[r.off]
	if c < utf8.RuneSelf {
		r.off++
		return rune(c), 1, nil
	}
	ru, size := utf8.DecodeRune(r.b[r.off:])
	r.off += size
	return ru, size, nil
}

// vDribbleReader is a legal but unhelpful reader: it hands out at most one octet per Read call.
type vDribbleReader struct {
	vCountingReader
}

func (r *vDribbleReader) Read(p []byte) (int, error) {
	if len(p) > 1 {
		p = p[:1]
	}
	return r.vCountingReader.Read(p)
}

var zSharedList = []int32{4, 5, 6}
var zSharedMap = map[string]int32{"k": 3}

type ZFold struct {
	UserID int32
	UserId int32
	Userid string
}

type vBufWriter struct{ b []byte }

func (w *vBufWriter) Write(p []byte) (int, error) {
	w.b = append(w.b, p...)
	return len(p), nil
}

// zStreamValue: menu of values; shared is an object also sent by other messages of the same stream.
// zSmall: an arbitrary int32; in the quick tier restricted to one wire form (forms are C07's subject).
var zSmallOneForm bool // set by a harness whose thorough tier is deep in another dimension

func zSmall(tag string) int32 {
	x := vInt32(tag)
	if vTier() == 0 || zSmallOneForm {
		vAssume(x >= 0)
		vAssume(x <= 40)
	}
	return x
}

func zStreamValue(kind int, tag string, shared *ZInner) interface{} {
	switch kind {
	case 0:
		return zSmall(tag)
	case 1: // a short string with one arbitrary code point of any UTF-8 width
		return string([]rune{'t', vScalar(tag), 'z'})
	case 20: // the same map every time: later occurrences travel as back-references
		return zSharedMap
	case 19: // field names that start with a capital outside ASCII
		return &ZUnicodeNames{Ärger: "a", Ωhm: zSmall(tag), Normal: 4}
	case 18: // two fields whose names are equal under case folding
		return &ZFold{UserID: zSmall(tag), UserId: 7, Userid: "u"}
	case 2:
		return &ZInner{N: zSmall(tag), S: "s"}
	case 3:
		return []int32{1, zSmall(tag)}
	case 4:
		return shared
	case 5:
		return &ZOuter{A: zSmall(tag), In: ZInner{N: 1, S: "i"}, P: shared, Z: 2}
	case 6:
		return int64(zSmall(tag)) << 20
	case 7:
		return []interface{}{"x", zSmall(tag)}
	case 8:
		return map[string]int32{"k": zSmall(tag)}
	case 9:
		return []byte{1, 2, 3}
	case 10: // a string of two chunks (2048 + 2 characters), one of them arbitrary
		rs := make([]rune, 2050)
		for i := range rs {
			rs[i] = rune('a' + i%26)
		}
		rs[2049] = rune('a' + zSmall(tag)%26)
		return string(rs)
	case 12:
		return float64(zSmall(tag)) + 0.25 // an 8-octet double
	case 15: // a string in the three-octet 'S' form (1024..2048 characters)
		rs := make([]rune, 1500)
		for i := range rs {
			rs[i] = rune('a' + i%26)
		}
		rs[1499] = rune('a' + zSmall(tag)%26)
		return string(rs)
	case 16: // 18 distinct classes: the last instances use the long 'O' form
		return zManyClasses(18, zSmall(tag), 16)
	case 17: // a struct without fields: an object all the same, with an ordinal of its own
		return &ZEmpty{}
	case 13:
		return zSharedList // the same list every time: later occurrences travel as back-references
	case 14:
		return []interface{}{zSharedList, "in", zSharedList}
	default: // a binary of two chunks (4096 + 1 octets)
		b := make([]byte, 4097)
		for i := range b {
			b[i] = byte(i)
		}
		b[4096] = byte(zSmall(tag))
		return b
	}
}

func zStreamEq(kind int, a, b interface{}) bool {
	switch kind {
	case 0:
		x, ok := b.(int32)
		return ok && x == a.(int32)
	case 1, 10, 15:
		x, ok := b.(string)
		return ok && x == a.(string)
	case 16:
		x, ok := b.([]interface{})
		want := a.([]interface{})
		if !ok || len(x) != len(want) {
			return false
		}
		same := true
		for i := range want {
			same = vAnd(same, zClassV(x[i]) == zClassV(want[i]))
		}
		return same
	case 17:
		x, ok := b.(*ZEmpty)
		return ok && x != nil
	case 20:
		// (an unnamed map type comes back as map[interface{}]interface{}: known finding; never as a pointer to one)
		x, ok := b.(map[interface{}]interface{})
		return ok && len(x) == 1 && x["k"] == interface{}(int32(3))
	case 19:
		x, ok := b.(*ZUnicodeNames)
		w := a.(*ZUnicodeNames)
		return ok && x != nil && x.Ärger == "a" && x.Ωhm == w.Ωhm && x.Normal == 4
	case 18:
		x, ok := b.(*ZFold)
		w := a.(*ZFold)
		return ok && x != nil && x.UserID == w.UserID && x.UserId == 7 && x.Userid == "u"
	case 2, 4:
		x, ok := b.(*ZInner)
		return ok && x != nil && eqZInner(a.(*ZInner), x)
	case 3, 13:
		x, ok := b.([]int32)
		return ok && eqInt32s(a.([]int32), x)
	case 14:
		x, ok := b.([]interface{})
		if !ok || len(x) != 3 {
			return false
		}
		l0, ok0 := x[0].([]int32)
		s1, ok1 := x[1].(string)
		l2, ok2 := x[2].([]int32)
		return ok0 && ok1 && ok2 && s1 == "in" && eqInt32s(l0, zSharedList) && eqInt32s(l2, zSharedList)
	case 5:
		x, ok := b.(*ZOuter)
		return ok && x != nil && eqZOuter(a.(*ZOuter), x)
	case 6:
		x, ok := b.(int64)
		return ok && x == a.(int64)
	case 12:
		x, ok := b.(float64)
		return ok && x == a.(float64)
	case 7:
		x, ok := b.([]interface{})
		if !ok || len(x) != 2 {
			return false
		}
		s, ok1 := x[0].(string)
		i, ok2 := x[1].(int32)
		return ok1 && ok2 && s == "x" && i == a.([]interface{})[1].(int32)
	case 8:
		x, ok := b.(map[string]int32)
		return ok && len(x) == 1 && x["k"] == a.(map[string]int32)["k"]
	default:
		x, ok := b.([]byte)
		return ok && eqBytes(a.([]byte), x)
	}
}

// H_C06_stream: n values of mixed types written through one encoder (or serializer) are read back in order
// through one decoder (or serializer) on a reader without read-ahead; each read consumes exactly the bytes
// of one value as delimited by the reference parser, and returns a documented Go type.
func H_C06_stream() {
	// quick: two values, payload ints in one wire form. thorough: either two values with payload ints of every form,
	// or three values (the third from the kinds that refer back or are referred to) with one-form ints; the full
	// product (three values x every form each) is about 125 times larger and did not finish within the wall limit
	n := 2
	zSmallOneForm = false
	if vTier() == 1 && vChoice("depth", 2) == 1 {
		n = 3
		zSmallOneForm = true
	}
	shared := &ZInner{N: 42, S: "shared"}
	tm, nm := vExtractAll(&ZOuter{P: &ZInner{}}, &ZEmpty{}, &ZFold{}, &ZUnicodeNames{}, []int32{}, map[string]int32{"k": 1}, zManyClasses(19, 0, -1))
	kinds := make([]int, n)
	vals := make([]interface{}, n)
	for i := range vals {
		if i == 2 {
			// third value (thorough tier): the kinds that refer back to earlier messages or are referred to
			kinds[i] = []int{0, 2, 4, 5, 13, 14}[vChoice("kind3", 6)]
		} else {
			kinds[i] = vChoice("kind", 21)
		}
		vals[i] = zStreamValue(kinds[i], "v", shared)
	}
	viaSerializer := vChoice("api", 2) == 1
	w := &vBufWriter{}
	// an earlier, finished stream through the same instance: none / empty containers only / the shared object
	prior := vChoice("prior", 3)
	var priorVal interface{}
	switch prior {
	case 1:
		priorVal = []string{}
	case 2:
		priorVal = []interface{}{shared, []int32{}}
	}
	if viaSerializer {
		s := NewSerializer(tm, nm)
		if prior > 0 {
			vAssert("prior-noerr", s.WriteTo(&vBufWriter{}, priorVal) == nil)
		}
		for i, v := range vals {
			var err error
			if i == 0 {
				err = s.WriteTo(w, v)
			} else {
				err = s.Write(v)
			}
			vAssert("write-noerr", err == nil)
		}
	} else {
		e := NewEncoder(w, nm)
		if prior > 0 {
			vAssert("prior-noerr", e.WriteTo(&vBufWriter{}, priorVal) == nil)
			e.Reset(w)
		}
		for _, v := range vals {
			vAssert("write-noerr", e.WriteObject(v) == nil)
		}
	}
	// reference framing of the stream
	p := &refParser{b: w.b}
	ends := make([]int, n)
	for i := 0; i < n; i++ {
		p.value()
		ends[i] = p.pos
	}
	vAssert("stream-wellformed", p.err == "" && p.pos == len(w.b))
	cr := &vDribbleReader{vCountingReader{b: w.b}}
	r := &cr.vCountingReader
	var rd ByteRuneReader = r
	if vChoice("reader", 2) == 1 {
		rd = cr // one octet per Read call: a reader may always return fewer octets than asked for
	}
	var d *Decoder
	var s Serializer
	if viaSerializer {
		s = NewSerializer(tm, nm)
	} else {
		d = NewDecoder(rd, tm)
	}
	for i := 0; i < n; i++ {
		var got interface{}
		var err error
		switch {
		case !viaSerializer:
			got, err = d.ReadObject()
		case i == 0:
			got, err = s.ReadFrom(rd)
		default:
			got, err = s.Read()
		}
		vAssert("read-noerr", err == nil)
		vAssert("exact-framing", r.off == ends[i])
		if got != nil {
			t := reflect.TypeOf(got)
			vAssert("documented-type", t != _refHolderType && t != reflect.TypeOf(&_refHolder{}) && t != reflect.TypeOf(reflect.Value{}))
		}
		// a map of an unnamed Go map type held in an interface is written untyped and comes back as
		// map[interface{}]interface{} (known finding): while it is open, its framing and entries are checked
		if kinds[i] == 8 && vIsOpen("C06-bare-map-loses-go-type") {
			m, ok := got.(map[interface{}]interface{})
			vAssert("same-entries", ok && len(m) == 1 && m["k"] == interface{}(vals[i].(map[string]int32)["k"]))
		} else {
			vAssert("same-value", zStreamEq(kinds[i], vals[i], got))
		}
	}
}

// H_C06_refused_value_leaves_stream_intact: a WriteObject that is refused without a single octet reaching the
// stream (a value the format cannot carry, met before anything was written) leaves the stream as it was: the
// values written before and after it - the later ones referring back to the earlier - are read back in order.
func H_C06_refused_value_leaves_stream_intact() {
	tm, nm := vExtractAll(&ZInner{}, &ZUnexp{}, []int32{})
	x := &ZInner{N: zSmall("x"), S: "a"}
	var bad interface{}
	switch vChoice("bad", 5) {
	case 0:
		bad = &ZUnexp{A: 1, b: 2}
	case 1:
		bad = make(chan int)
	case 2:
		bad = func() {}
	case 3:
		bad = complex(1, 2)
	case 4:
		bad = uintptr(5)
	}
	w := &vBufWriter{}
	viaSerializer := vChoice("api", 2) == 1
	var e *Encoder
	var s Serializer
	if viaSerializer {
		s = NewSerializer(tm, nm)
		vAssert("w1", s.WriteTo(w, x) == nil)
	} else {
		e = NewEncoder(w, nm)
		vAssert("w1", e.WriteObject(x) == nil)
	}
	before := len(w.b)
	var err error
	if viaSerializer {
		err = s.Write(bad)
	} else {
		err = e.WriteObject(bad)
	}
	vAssert("refused", err != nil)
	vAssume(len(w.b) == before) // the case at hand: nothing of the refused value reached the stream
	y := &ZInner{N: 9, S: "b"}
	if viaSerializer {
		vAssert("w2", s.Write(y) == nil && s.Write(x) == nil && s.Write(y) == nil)
	} else {
		vAssert("w2", e.WriteObject(y) == nil && e.WriteObject(x) == nil && e.WriteObject(y) == nil)
	}
	d := NewDecoder(&vCountingReader{b: w.b}, tm)
	o1, e1 := d.ReadObject()
	o2, e2 := d.ReadObject()
	o3, e3 := d.ReadObject()
	o4, e4 := d.ReadObject()
	vAssert("reads-noerr", e1 == nil && e2 == nil && e3 == nil && e4 == nil)
	g1, ok1 := o1.(*ZInner)
	g2, ok2 := o2.(*ZInner)
	g3, ok3 := o3.(*ZInner)
	g4, ok4 := o4.(*ZInner)
	vAssert("types", ok1 && ok2 && ok3 && ok4)
	vAssert("values", eqZInner(x, g1) && g2.N == 9 && g2.S == "b")
	vAssert("back-references", g3 == g1 && g4 == g2)
}
