//go:build verif

package hessian

import (
	"reflect"
	"time"
)

type ZEmpty struct{}

type ZArrHolder struct {
	G [2]int32
	E ZEmpty
	A *ZInner
	B *ZInner
}

// zRefOrdinalMsg: a heterogeneous list whose two last elements are the same object p. In front of it come one
// chosen group of values that do or do not take a back-reference ordinal (arrays held by value, zero-size structs,
// empty and nil lists and maps, binaries, scalars) and a chosen number of distinct filler objects, so that p's
// ordinal sits on either side of every boundary of the reference index's int forms (47/48, 63/64; thorough tier
// also 2047/2048).
func zRefOrdinalMsg(x int32, arrays bool) (msg []interface{}, p *ZInner) {
	p = &ZInner{N: x, S: "p"}
	before := vChoice("before", 9)
	if !arrays {
		// the decoder has no Go arrays (they are not among the supported kinds): the round trip leaves them out
		vAssume(before != 1 && before != 5 && before != 8)
	}
	switch before {
	case 0:
	case 1:
		msg = []interface{}{[2]int32{1, 2}}
	case 2:
		msg = []interface{}{ZEmpty{}}
	case 3:
		msg = []interface{}{&ZEmpty{}, &ZEmpty{}}
	case 4:
		msg = []interface{}{[]int32{}, []int32(nil), map[string]int32{}, []string{"s"}}
	case 5:
		msg = []interface{}{[0]int32{}}
	case 6:
		bin := []byte{1, 2}
		msg = []interface{}{bin, bin, []byte{}}
	case 7:
		msg = []interface{}{"s", int32(1), 2.5, time.Unix(1, 0), nil, true, int64(1) << 40}
	case 8:
		msg = []interface{}{&ZArrHolder{G: [2]int32{1, 2}}, ZArrHolder{}}
	}
	fills := []int{0, 44, 45, 46, 47, 48, 60, 61, 62, 63, 64}
	if vTier() == 1 {
		fills = append(fills, 2044, 2045, 2046, 2047, 2048)
	}
	fill := fills[vChoice("fill", len(fills))]
	for i := 0; i < fill; i++ {
		msg = append(msg, &ZInner{N: int32(i), S: "f"})
	}
	msg = append(msg, p, p)
	return msg, p
}

func zRefOrdinalTypes() (map[string]reflect.Type, map[string]string) {
	return vExtractAll(&ZInner{}, &ZEmpty{}, &ZArrHolder{}, []int32{}, []string{}, map[string]int32{}, [2]int32{}, [0]int32{})
}

// H_C02_ref_ordinals: whatever precedes it in the stream, the back-reference to p carries exactly the ordinal an
// independent reader (counting lists, maps and objects in stream order) gave to p's first occurrence.
func H_C02_ref_ordinals() {
	x := vInt32("x")
	vAssume(x >= 0 && x <= 40)
	msg, _ := zRefOrdinalMsg(x, true)
	_, nameMap := zRefOrdinalTypes()
	vStepLimit(40000000)
	bs, err := ToBytes(msg, nameMap)
	vStepLimit(0)
	vAssert("encode-noerr", err == nil)
	av, n, ps := refParse(bs)
	vAssert("parses", ps.err == "")
	vAssert("no-bytes-left", n == len(bs))
	vAssert("is-list", av.Kind == 'V' && len(av.Items) == len(msg))
	first, second := av.Items[len(msg)-2], av.Items[len(msg)-1]
	vAssert("first-occurrence-is-the-object", first.Kind == 'O' && first.Type == "ZInner" && len(first.Items) == 2 &&
		first.Items[0].Kind == 'I' && first.Items[0].Int == int64(x))
	vAssert("second-occurrence-is-a-ref", second.Kind == 'R')
	vAssert("ref-carries-the-ordinal", second.Ref == first.Ord)
	// no earlier element was replaced by a reference to something of another kind
	for i := 0; i < len(msg)-2; i++ {
		it := av.Items[i]
		if it.Kind == 'R' {
			vAssert("early-ref-in-range", it.Ref > 0 && it.Ref < first.Ord)
		}
	}
}

// H_C02_array_field: an array held by value in a struct is a list and takes an ordinal like any other list.
func H_C02_array_field() {
	x := vInt32("x")
	p := &ZInner{N: x, S: "p"}
	v := &ZArrHolder{G: [2]int32{1, 2}, A: p, B: p}
	_, nameMap := zRefOrdinalTypes()
	bs, err := ToBytes(v, nameMap)
	vAssert("encode-noerr", err == nil)
	av, n, ps := refParse(bs)
	vAssert("parses", ps.err == "")
	vAssert("no-bytes-left", n == len(bs))
	vAssert("object", av.Kind == 'O' && len(av.Items) == 4)
	vAssert("array-is-a-list", av.Items[0].Kind == 'V' && len(av.Items[0].Items) == 2)
	a, b := av.Items[2], av.Items[3]
	vAssert("a-is-the-object", a.Kind == 'O' && a.Type == "ZInner" && a.Items[0].Int == int64(x))
	vAssert("b-refers-to-a", b.Kind == 'R' && b.Ref == a.Ord)
}

// H_C04_ref_ordinals: the same messages through the library's decoder: both occurrences come back as one object
// with p's payload, whatever numbered or unnumbered values precede it and whatever p's ordinal is.
func H_C04_ref_ordinals() {
	x := vInt32("x")
	vAssume(x >= 0 && x <= 40)
	msg, _ := zRefOrdinalMsg(x, false)
	typMap, nameMap := zRefOrdinalTypes()
	vStepLimit(80000000)
	bs, err := ToBytes(msg, nameMap)
	vAssert("encode-noerr", err == nil)
	out, err := ToObject(bs, typMap)
	vStepLimit(0)
	vAssert("decode-noerr", err == nil)
	l, ok := out.([]interface{})
	vAssert("list", ok && len(l) == len(msg))
	a, oka := l[len(l)-2].(*ZInner)
	b, okb := l[len(l)-1].(*ZInner)
	vAssert("both-are-objects", oka && okb && a != nil && b != nil)
	vAssert("same-object", a == b)
	vAssert("payload", a.N == x && a.S == "p")
	// the fillers are all distinct objects with their own payload
	k := 0
	for i := 0; i < len(l)-2; i++ {
		if f, isf := l[i].(*ZInner); isf && f != nil && f.S == "f" {
			vAssert("filler-payload", f.N == int32(k))
			vAssert("filler-distinct", f != a)
			k++
		}
	}
}

// H_C04_shared_map_elements: the same map as two elements of a list (untyped, and a typed list of maps) and as
// two values of a map: every occurrence comes back as a map with the entries - never as a pointer to one or an
// internal carrier - and occurrences that were one map are one map again.
func H_C04_shared_map_elements() {
	x := vInt32("x")
	m := map[string]int32{"k": x}
	switch vChoice("where", 3) {
	case 0:
		v := []interface{}{m, "s", m}
		bs, err := ToBytes(v, nil)
		vAssert("encode-noerr", err == nil)
		out, err := ToObject(bs, nil)
		vAssert("decode-noerr", err == nil)
		l, ok := out.([]interface{})
		vAssert("list", ok && len(l) == 3)
		a, oka := l[0].(map[interface{}]interface{})
		b, okb := l[2].(map[interface{}]interface{})
		vAssert("both-are-maps", oka && okb)
		vAssert("entries", len(a) == 1 && len(b) == 1 && a["k"] == interface{}(x) && b["k"] == interface{}(x))
		a["probe"] = int32(1)
		vAssert("same-map", len(b) == 2)
	case 1:
		v := []map[string]int32{m, {"j": 2}, m}
		typMap, nameMap := vExtract(v)
		bs, err := ToBytes(v, nameMap)
		vAssert("encode-noerr", err == nil)
		out, err := ToObject(bs, typMap)
		vAssert("decode-noerr", err == nil)
		l, ok := out.([]map[string]int32)
		vAssert("list", ok && len(l) == 3)
		vAssert("entries", len(l[0]) == 1 && len(l[2]) == 1 && l[0]["k"] == x && l[2]["k"] == x && l[1]["j"] == 2)
	case 2:
		v := map[string]interface{}{"a": m, "b": m}
		bs, err := ToBytes(v, nil)
		vAssert("encode-noerr", err == nil)
		out, err := ToObject(bs, nil)
		vAssert("decode-noerr", err == nil)
		g, ok := out.(map[interface{}]interface{})
		vAssert("map", ok && len(g) == 2)
		a, oka := g["a"].(map[interface{}]interface{})
		b, okb := g["b"].(map[interface{}]interface{})
		vAssert("both-are-maps", oka && okb)
		vAssert("entries", len(a) == 1 && len(b) == 1 && a["k"] == interface{}(x) && b["k"] == interface{}(x))
	}
}

// H_C04_skipped_field_keeps_ordinals: the sender's class has a field this side lacks and its value holds
// containers. Containers that come after it keep the ordinals the sender gave them: back-references to an object
// behind the skipped value, and to one inside it, resolve to those very objects.
func H_C04_skipped_field_keeps_ordinals() {
	tm := map[string]reflect.Type{"ZKeep": reflect.TypeOf(ZKeep{}), "ZInner": reflect.TypeOf(ZInner{}), "[ZInner": reflect.TypeOf([]*ZInner{})}
	n := vInt32("n")
	inner := refCat(refClassDef("ZInner", []string{"n", "s"}), []byte{0x61}, refInt(7), refStr("in"))
	var extra []byte
	k, innerOrd := 0, 0 // containers inside the skipped value; ordinal of the ZInner among them
	switch vChoice("extra", 5) {
	case 0:
		extra, k, innerOrd = inner, 1, 1
	case 1:
		extra, k, innerOrd = refCat([]byte{0x79}, inner), 2, 2
	case 2:
		extra, k, innerOrd = refCat([]byte{'H'}, refStr("k"), inner, []byte{'Z'}), 2, 2
	case 3: // no container at all, but a class definition inside the skipped value
		extra, k = refCat(refClassDef("ZInner", []string{"n", "s"}), refInt(1)), 0
	case 4:
		extra, k, innerOrd = refCat([]byte{0x7a}, inner, []byte{0x78}), 3, 2
	}
	// the known fields: p is a new object (ordinal 1+k), l = [p again, the object inside the skipped value if any]
	pOrd := byte(0x90 + 1 + k)
	p := refCat([]byte{0x61}, refInt(n), refStr("p"))
	second := []byte{0x51, pOrd}
	if k > 0 {
		second = []byte{0x51, byte(0x90 + innerOrd)}
	}
	wire := refCat(refClassDef("ZKeep", []string{"extra", "a", "p", "l"}), []byte{0x60}, extra, refInt(5),
		p, []byte{0x7a}, []byte{0x51, pOrd}, second)
	out, err := ToObject(wire, tm)
	vAssert("decode-noerr", err == nil)
	g, ok := out.(*ZKeep)
	vAssert("type", ok && g != nil && g.A == 5)
	vAssert("later-object-keeps-ordinal", g.P != nil && g.P.N == n && len(g.L) == 2 && g.L[0] == g.P)
	if k > 0 {
		vAssert("object-inside-skipped-value", g.L[1] != nil && g.L[1] != g.P && g.L[1].N == 7 && g.L[1].S == "in")
	} else {
		vAssert("second-is-p", g.L[1] == g.P)
	}
}
