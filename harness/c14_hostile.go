//go:build verif

package hessian

import "reflect"

func vZooTypeMap() map[string]reflect.Type {
	t, _ := vExtractAll(&ZOuter{P: &ZInner{}}, &ZLists{})
	return t
}

// H_C14_arbitrary: the input is an arbitrary buffer of n bytes. Every feasible path must return (no panic,
// engine-detected blocking or runaway), within a step bound linear in n, and never allocate more elements
// than 65536+n because of a length that is merely declared in the input.
func H_C14_arbitrary() {
	nmax := 3
	if vTier() == 1 {
		nmax = 5
	}
	n := vChoice("n", nmax+1)
	buf := vBytes("in", n)
	var tm map[string]reflect.Type
	if vChoice("typemap", 2) == 1 {
		tm = vZooTypeMap()
	}
	vAllocBound(65536 + n)
	vStepLimit(60000 + 20000*n)
	ToObject(buf, tm)
	vStepLimit(0)
}
