//go:build verif

package hessian

import "reflect"

func vZooTypeMap() map[string]reflect.Type {
	t, _ := vExtractAll(&ZOuter{P: &ZInner{}}, &ZLists{}, &ZShare{})
	return t
}

// H_C14_arbitrary: the input is an arbitrary buffer of n bytes. Every feasible path must return (no panic,
// engine-detected blocking or runaway), within a step bound linear in n, and never allocate more elements
// than 65536+n because of a length that is merely declared in the input.
func H_C14_arbitrary() {
	nmax := 3
	if vTier() == 1 {
		nmax = 5
	}
	n := vChoice("n", nmax+1)
	buf := vBytes("in", n)
	var tm map[string]reflect.Type
	if vChoice("typemap", 2) == 1 {
		tm = vZooTypeMap()
	}
	vAllocBound(65536 + n)
	vStepLimit(60000 + 20000*n)
	ToObject(buf, tm)
	vStepLimit(0)
	vAllocCheck()
	vAssert("returned", true)
}

func zValidMessage(which int) ([]byte, map[string]reflect.Type) {
	tm := vZooTypeMap()
	_, nm := vExtractAll(&ZOuter{P: &ZInner{}}, &ZLists{}, &ZShare{})
	var v interface{}
	switch which {
	case 0:
		v = &ZOuter{A: 300, In: ZInner{N: 5, S: "in"}, P: &ZInner{N: -70000, S: "p"}, Z: 1 << 40}
	case 1:
		in := &ZInner{N: 1, S: "x"}
		v = &ZLists{Ss: []string{"a", "bc"}, Is: []int32{1, 2}, Ps: []*ZInner{in, in}}
	case 2:
		v = []interface{}{int32(1), "two", 3.5, []byte{4}, nil, true}
	case 3:
		v = map[string]int32{"k": 7}
	case 4:
		v = "a string with é"
	case 5:
		v = []int32{1, 2, 3}
	case 9: // two slice fields sharing one list: the second travels as a back-reference
		sh := []int32{1, 2}
		v = &ZShare{A: sh, B: sh, C: []int32{3}, Z: 4}
	case 6: // a list that contains itself
		return []byte{0x58, 0x92, 0x51, 0x90, 0x91}, tm
	case 7: // a map whose key is a list that contains itself (x58 x91 x51 x91), value 0
		return []byte{'H', 0x58, 0x91, 0x51, 0x91, 0x90, 'Z'}, tm
	default: // an object whose list field contains the object's own list
		return refCat(refClassDef("ZLists", []string{"ss", "is", "ps"}), []byte{0x60, 0x78, 0x79, 0x90},
			refCat(refClassDef("ZInner", []string{"n", "s"}), []byte{0x79, 0x61, 0x91, 0x01, 's'})), tm
	}
	bs, err := ToBytes(v, nm)
	vAssume(err == nil)
	return bs, tm
}

// H_C14_mutated: a valid message with one octet replaced by an arbitrary one at every position, and every
// prefix of it: the decoder returns; steps and allocations stay bounded by the input size.
func H_C14_mutated() {
	msg, tm := zValidMessage(vChoice("msg", 10))
	in := make([]byte, len(msg))
	copy(in, msg)
	switch vChoice("damage", 3) {
	case 0:
		pos := vChoice("pos", len(msg))
		in[pos] = vUint8("octet")
	case 1:
		in = in[:vChoice("cut", len(msg))]
	case 2:
		// undamaged: the message itself (cyclic messages are legal input too)
	}
	vAllocBound(65536 + len(in))
	vStepLimit(100000 + 20000*len(in))
	ToObject(in, tm)
	vStepLimit(0)
	vAllocCheck()
	vAssert("returned", true)
}

// H_C14_entrypoints: the streaming entry points on hostile input (two reads in a row, serializer).
func H_C14_entrypoints() {
	n := vChoice("n", 3)
	buf := vBytes("in", n)
	tm := vZooTypeMap()
	vAllocBound(65536 + n)
	vStepLimit(100000 + 20000*n)
	switch vChoice("entry", 4) {
	case 0:
		d := NewDecoder(&vCountingReader{b: buf}, tm)
		d.ReadObject()
		d.ReadObject()
	case 1:
		s := NewSerializer(tm, nil)
		s.ReadFrom(&vCountingReader{b: buf})
		s.Read()
	case 2:
		NewDecoder(nil, tm).ReadFrom(&vCountingReader{b: buf})
	case 3:
		d := NewDecoder(&vDribbleReader{vCountingReader{b: buf}}, tm)
		d.ReadObject()
		d.ReadObject()
	}
	vStepLimit(0)
}

// H_C14_long_list_length: a fixed-length list that really carries more elements than the decoder's allocation
// chunk, with an arbitrary 32-bit declared length: memory must follow the elements that arrive.
func H_C14_long_list_length() {
	const real = 4100
	typed := vChoice("typed", 2) == 1
	var wire []byte
	tm := map[string]reflect.Type{"[int32": reflect.TypeOf([]int32{})}
	if typed {
		wire = refCat([]byte{'V'}, refStr("[int32"))
	} else {
		wire = []byte{0x58}
	}
	// the declared length is edited to a menu of values (a fully symbolic length would cost one solver query per
	// element actually read; the allocation assertion itself does not need it)
	n := []int32{real, real + 1, 8192, 65536, 1 << 20, 1 << 30, 2147483647, -1}[vChoice("declared", 8)]
	wire = append(wire, refInt(n)...)
	for i := 0; i < real; i++ {
		wire = append(wire, 0x90+byte(i%40))
	}
	vAllocBound(65536 + len(wire))
	vStepLimit(3000000)
	ToObject(wire, tm)
	vStepLimit(0)
	vAllocCheck()
	vAssert("returned", true)
}

// H_C14_stream_mutated: a stream of two valid messages, the second damaged in one octet (or cut), read through
// the streaming entry points: Serializer.ReadFrom + Read, Decoder.ReadObject twice.
func H_C14_stream_mutated() {
	m1, tm := zValidMessage(0)
	m2, _ := zValidMessage([]int{1, 2, 9}[vChoice("second", 3)])
	in := make([]byte, 0, len(m1)+len(m2))
	in = append(in, m1...)
	in = append(in, m2...)
	if vChoice("damage", 2) == 0 {
		in[len(m1)+vChoice("pos", len(m2))] = vUint8("octet")
	} else {
		in = in[:len(m1)+vChoice("cut", len(m2))]
	}
	vAllocBound(65536 + len(in))
	vStepLimit(150000 + 20000*len(in))
	if vChoice("api", 2) == 0 {
		s := NewSerializer(tm, nil)
		s.ReadFrom(&vCountingReader{b: in})
		s.Read()
	} else {
		d := NewDecoder(&vCountingReader{b: in}, tm)
		d.ReadObject()
		d.ReadObject()
	}
	vStepLimit(0)
	vAllocCheck()
	vAssert("returned", true)
}

// H_C14_crosslinks: one message holding a self-containing list, typed int / string lists, an object with slice
// and pointer fields, a map, and several back-references; one octet is damaged, so every back-reference index is
// redirected to every other container (wrong kinds, wrong element types, cyclic values).
func H_C14_crosslinks() {
	tm := vZooTypeMap()
	tm["[int"] = reflect.TypeOf([]int32{})
	tm["[string"] = reflect.TypeOf([]string{})
	obj := refCat(refClassDef("ZShare", []string{"a", "b", "c", "m", "n", "z"}),
		[]byte{0x60, 0x51, 0x92, 0x51, 0x92, 0x51, 0x93}, // #4: the slice fields refer to #2, #2, #3
		[]byte{'H'}, refStr("k"), []byte{0x51, 0x91, 'Z'}, // #5: a map whose value refers to #1
		[]byte{'N'}, refInt(1))
	msg := refCat([]byte{0x58}, refInt(7),
		[]byte{0x79, 0x51, 0x91},                                    // #1: a list that contains itself
		[]byte{0x72}, refStr("[int"), refInt(5), []byte{0x51, 0x91}, // #2: typed ints, 2nd element refers to #1
		[]byte{0x71}, refStr("[string"), refStr("s"), // #3
		obj,
		[]byte{0x51, 0x94},                              // the object again
		[]byte{'H', 0x51, 0x93}, refInt(1), []byte{'Z'}, // #6: a map keyed by a list
		[]byte{0x51, 0x95})
	in := make([]byte, len(msg))
	copy(in, msg)
	if vChoice("damage", 2) == 0 {
		in[vChoice("pos", len(msg))] = vUint8("octet")
	}
	vAllocBound(65536 + len(in))
	vStepLimit(200000 + 20000*len(in))
	ToObject(in, tm)
	vStepLimit(0)
	vAllocCheck()
	vAssert("returned", true)
}

type ZIfaceMaps struct {
	M map[interface{}]int32
	A interface{}
}

// H_C14_odd_structure: well-formed octets with unusual content, the kind a damaged or hostile peer produces and a
// one-octet mutation of a valid message rarely reaches: class definitions whose field names are empty, one
// arbitrary octet, duplicated, capitalised; a definition without fields; lists, maps and binaries as keys of maps
// that land in Go maps keyed by interface{}; entry points used before any reader was given.
func H_C14_odd_structure() {
	tm, _ := vExtractAll(&ZOuter{P: &ZInner{}}, &ZIfaceMaps{}, &ZEmpty{})
	tm["imap"] = reflect.TypeOf(map[interface{}]interface{}{})
	tm["smap"] = reflect.TypeOf(map[string]int32{})
	c := vUint8("c")
	vAssume(c < 0x80)
	one := string([]byte{c})
	listKey := refCat([]byte{0x58}, refInt(1), refInt(5))
	mapKey := refCat([]byte{'H'}, refStr("a"), refInt(1), []byte{'Z'})
	binKey := []byte{0x22, 1, 2}
	objKey := refCat(refClassDef("ZInner", []string{"n", "s"}), []byte{0x60}, refInt(1), refStr("s"))
	keys := [][]byte{listKey, mapKey, binKey, objKey, {'N'}, refCat([]byte{0x5b})}
	var in []byte
	switch vChoice("msg", 12) {
	case 0:
		in = refCat(refClassDef("ZInner", []string{"", "s"}), []byte{0x60}, refInt(1), refStr("s"))
	case 1:
		in = refCat(refClassDef("ZInner", []string{one, "s"}), []byte{0x60}, refInt(1), refStr("s"))
	case 2:
		in = refCat(refClassDef("ZInner", []string{"n", "n", "N", "S", "s"}), []byte{0x60}, refInt(1), refInt(2), refInt(3), refStr("S"), refStr("s"))
	case 3:
		in = refCat(refClassDef("ZInner", nil), []byte{0x60})
	case 4:
		in = refCat(refClassDef(one, []string{"n"}), []byte{0x60}, refInt(1))
	case 5:
		in = refCat([]byte{'M'}, refStr("imap"), keys[vChoice("key", len(keys))], refInt(1), []byte{'Z'})
	case 6:
		in = refCat([]byte{'M'}, refStr("smap"), keys[vChoice("key", len(keys))], refInt(1), []byte{'Z'})
	case 7: // the interface-keyed map field of a struct
		in = refCat(refClassDef("ZIfaceMaps", []string{"m", "a"}), []byte{0x60},
			[]byte{'H'}, keys[vChoice("key", len(keys))], refInt(1), []byte{'Z'}, []byte{'N'})
	case 8: // a map keyed by a list, held in an interface field, then referred to as a key itself
		in = refCat(refClassDef("ZIfaceMaps", []string{"a", "m"}), []byte{0x60},
			listKey, []byte{'H', 0x51, 0x91}, refInt(1), []byte{'Z'})
	case 9:
		in = refCat([]byte{'H'}, keys[vChoice("key", len(keys))], refInt(1), keys[vChoice("key2", len(keys))], refInt(2), []byte{'Z'})
	case 10: // a class definition redefined with another arity between two instances
		in = refCat([]byte{0x57}, refClassDef("ZInner", []string{"n", "s"}), []byte{0x60}, refInt(1), refStr("s"),
			refClassDef("ZInner", []string{"s"}), []byte{0x61}, refStr("t"), []byte{0x60}, refInt(2), refStr("u"), []byte{'Z'})
	case 11:
		in = refCat(refClassDef("ZEmpty", []string{one}), []byte{0x60}, refInt(1))
	}
	vAllocBound(65536 + len(in))
	vStepLimit(200000 + 20000*len(in))
	switch vChoice("entry", 3) {
	case 0:
		ToObject(in, tm)
	case 1:
		d := NewDecoder(&vCountingReader{b: in}, tm)
		d.ReadObject()
		d.ReadObject()
	case 2:
		s := NewSerializer(tm, nil)
		s.ToObject(in)
		s.Read()
	}
	vStepLimit(0)
	vAllocCheck()
	vAssert("returned", true)
}

// H_C14_no_reader: streaming entry points called before any reader was supplied return an error.
func H_C14_no_reader() {
	tm := vZooTypeMap()
	switch vChoice("entry", 4) {
	case 0:
		_, err := NewSerializer(tm, nil).Read()
		vAssert("error-not-panic", err != nil)
	case 1:
		_, err := NewDecoder(nil, tm).ReadObject()
		vAssert("error-not-panic", err != nil)
	case 2:
		p := NewDecoderPool(1, tm)
		_, err := p.Get().(*Decoder).ReadObject()
		vAssert("error-not-panic", err != nil)
	case 3:
		d := NewDecoder(&vCountingReader{b: []byte{0x91}}, tm)
		d.Reset(nil)
		_, err := d.ReadObject()
		vAssert("error-not-panic", err != nil)
	}
}

type ZRecMap map[string]ZRecMap
type ZRecList []ZRecList

type ZRecHold struct {
	L []ZRecMap
	M map[string]ZRecMap
	S []ZRecList
	I []map[string]interface{}
	J map[string]map[string]interface{}
}

// H_C14_recursive_types: the registered Go types are themselves recursive (a map type whose values are maps of
// the same type, a slice type of itself) or hold interface-valued maps, and the input contains a map or list that
// contains itself: converting the decoded value to the Go type must terminate.
func H_C14_recursive_types() {
	tm, _ := vExtractAll(&ZRecHold{})
	selfMap := func(ord byte) []byte { return refCat([]byte{'H'}, refStr("a"), []byte{0x51, 0x90 + ord}, []byte{'Z'}) }
	var field string
	var val []byte
	switch vChoice("shape", 9) {
	case 7: // a 40-level DAG of lists, each holding the next one twice (the second time by back-reference): 2^40
		// paths through 41 lists; the conversion to the recursive slice type must visit each list once
		const d = 40
		val = []byte{0x78} // the innermost, empty list: ordinal d+1
		for j := 1; j <= d; j++ {
			val = refCat([]byte{0x7a}, val, []byte{0x51, byte(0x90 + 1 + d - (j - 1))})
		}
		field = "s"
	case 8: // the same with maps
		const d = 40
		val = []byte{'H', 'Z'}
		for j := 1; j <= d; j++ {
			val = refCat([]byte{'H'}, refStr("a"), val, refStr("b"), []byte{0x51, byte(0x90 + 1 + d - (j - 1))}, []byte{'Z'})
		}
		field = "m"
	case 0: // #0 object, #1 list, #2 the map that holds itself
		field, val = "l", refCat([]byte{0x79}, selfMap(2))
	case 1: // #1 outer map, #2 inner map holding itself
		field, val = "m", refCat([]byte{'H'}, refStr("k"), selfMap(2), []byte{'Z'})
	case 2: // #1 outer map holding itself as a value
		field, val = "m", selfMap(1)
	case 3: // #1 list, #2 a list that holds itself
		field, val = "s", refCat([]byte{0x79}, []byte{0x79, 0x51, 0x92})
	case 4: // #1 a list that holds itself, assigned to the slice-of-itself type
		field, val = "s", []byte{0x79, 0x51, 0x91}
	case 5:
		field, val = "i", refCat([]byte{0x79}, selfMap(2))
	case 6:
		field, val = "j", refCat([]byte{'H'}, refStr("k"), selfMap(2), []byte{'Z'})
	}
	in := refCat(refClassDef("ZRecHold", []string{field}), []byte{0x60}, val)
	if vChoice("damage", 2) == 1 {
		in[len(in)-2] = vUint8("octet")
	}
	vMapOrderFixed(true) // the order in which the two entries of each of 40 nested maps are visited is not the subject
	vAllocBound(65536 + len(in))
	vStepLimit(200000 + 20000*len(in))
	ToObject(in, tm)
	vStepLimit(0)
	vAllocCheck()
	vAssert("returned", true)
}
