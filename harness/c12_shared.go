//go:build verif

package hessian

// C12 by reduction: a data race needs a write to memory that another goroutine can reach. Shared roots are
// frozen (every package-level variable of gohessian, the complete name map and type map, the input value and
// input bytes); the executor reports any store to them on any feasible path as a violation. If no call ever
// writes shared-reachable memory, every shared access is a read, no race is possible, and each call depends
// only on its private instance and immutable shared state - hence on no schedule.
func H_C12_no_shared_writes() {
	probe := &ZOuter{A: vInt32("a"), In: ZInner{N: 7, S: "in"}, P: &ZInner{N: 3, S: "p"}, Z: 11}
	lists := &ZLists{Ss: []string{"a", ""}, Is: []int32{vInt32("i")}, Ps: []*ZInner{probe.P, probe.P}}
	named := &ZTree{V: 1, Kids: []*ZTree{{V: 2, Named: ZNamed{V: 4}}}, Named: ZNamed{V: 3}} // holds a custom-named class
	tm, nm := vExtractAll(probe, lists, named)
	// the maps are shared from the moment they are extracted: the very first encode must not write to them
	// either, so the reference rendering below is computed with private copies
	vMapOrderFixed(true)
	nmCopy := map[string]string{}
	for k, x := range nm {
		nmCopy[k] = x
	}
	vMapOrderFixed(false)
	ref, err := ToBytes(probe, nmCopy)
	vAssume(err == nil)
	refNamed, err := ToBytes(named, nmCopy)
	vAssume(err == nil)
	// from here on everything another goroutine could reach is read-only
	vFreezeGlobals("shared-global")
	vFreeze(nm, "shared-name-map")
	vFreeze(tm, "shared-type-map")
	vFreeze(named, "shared-input-value")
	vFreeze(refNamed, "shared-input-bytes")
	vFreeze(probe, "shared-input-value")
	vFreeze(lists, "shared-input-value")
	vFreeze(ref, "shared-input-bytes")
	// a message from a peer whose class carries a field this side lacks (the decoder's "skip unknown field" branch)
	newer := refCat(refClassDef("ZInner", []string{"n", "added", "s"}), []byte{0x60}, refInt(4), refStr("new"), refStr("s"))
	vFreeze(newer, "shared-input-bytes")
	foreign := [][]byte{
		refCat([]byte{'M', 0x00}, refStr("a"), refInt(1), []byte{'Z'}),                   // typed map with an empty type name
		refCat([]byte{'M'}, refStr("no.such.Type"), refStr("a"), refInt(1), []byte{'Z'}), // unknown map type
		refCat([]byte{'V'}, refStr("[no.such"), refInt(1), refInt(1)),                    // unknown list type
		refCat(refClassDef("no.such.Class", []string{"a"}), []byte{0x60}, refInt(1)),     // unknown class
		refCat([]byte{0x55, 0x00}, refInt(1), []byte{'Z'}),                               // variable-length list, empty type name
		refCat([]byte{'H'}, refStr("a"), refInt(1), []byte{'Z'}),
	}
	switch vChoice("call", 14) {
	case 13:
		// two callers use the same pooled instance one after the other: the second gets what it gets alone
		in := &ZInner{N: 8, S: "r"}
		ringA, errA := ToBytes(&ZPair{N: 1, A: in, B: in, L: []*ZInner{in}}, nmCopy)
		other := &ZInner{N: 9, S: "o"}
		ringB, errB := ToBytes(&ZPair{N: 2, A: other, B: other, L: []*ZInner{other, other}}, nmCopy)
		vAssume(errA == nil && errB == nil)
		tmp, _ := vExtractAll(&ZPair{})
		p := NewDecoderPool(1, tmp)
		d1 := p.Get().(*Decoder)
		d1.Decode(ringA)
		p.Return(d1)
		d2 := p.Get().(*Decoder)
		o, err := d2.Decode(ringB)
		g, ok := o.(*ZPair)
		vAssert("second-caller-alone-result", err == nil && ok && g.A != nil && g.A == g.B && g.A.N == 9 && len(g.L) == 2 && g.L[0] == g.A && g.L[1] == g.A)
	case 12:
		f := foreign[vChoice("foreign", len(foreign))]
		NewDecoder(nil, tm).Decode(f)
		NewSerializer(tm, nm).ToObject(f)
		vAssert("returned", true)
	case 10:
		o, err := NewDecoder(nil, tm).Decode(newer)
		g, ok := o.(*ZInner)
		vAssert("decode-newer-peer", err == nil && ok && g.N == 4 && g.S == "s")
	case 11:
		p := NewSerializerPool(2, tm, nm)
		s := p.Get().(Serializer)
		o, err := s.ToObject(newer)
		p.Return(s)
		_, ok := o.(*ZInner)
		vAssert("pool-decode-newer-peer", err == nil && ok)
	case 8:
		b, err := NewEncoder(nil, nm).Encode(named)
		vAssert("encode-custom-named", err == nil && eqBytes(b, refNamed))
	case 9:
		o, err := NewSerializer(tm, nm).ToObject(refNamed)
		g, ok := o.(*ZTree)
		vAssert("decode-custom-named", err == nil && ok && g.Named.V == 3 && len(g.Kids) == 1 && g.Kids[0].Named.V == 4)
	case 0:
		b, err := NewEncoder(nil, nm).Encode(probe)
		vAssert("encode", err == nil && eqBytes(b, ref))
	case 1:
		b, err := NewSerializer(tm, nm).ToBytes(lists)
		vAssert("encode-lists", err == nil && len(b) > 0)
	case 2:
		o, err := NewDecoder(nil, tm).Decode(ref)
		g, ok := o.(*ZOuter)
		vAssert("decode", err == nil && ok && eqZOuter(probe, g))
	case 3:
		o, err := NewSerializer(tm, nm).ToObject(ref)
		g, ok := o.(*ZOuter)
		vAssert("decode-ser", err == nil && ok && eqZOuter(probe, g))
	case 4:
		p := NewEncoderPool(2, nm)
		e := p.Get().(*Encoder)
		b, err := e.Encode(probe)
		p.Return(e)
		vAssert("pool-encode", err == nil && eqBytes(b, ref))
	case 5:
		p := NewDecoderPool(2, tm)
		d := p.Get().(*Decoder)
		o, err := d.Decode(ref)
		p.Return(d)
		_, ok := o.(*ZOuter)
		vAssert("pool-decode", err == nil && ok)
	case 6:
		p := NewSerializerPool(1, tm, nm)
		s := p.Get().(Serializer)
		b, err := s.ToBytes(probe)
		vAssert("pool-ser", err == nil && eqBytes(b, ref))
		p.Return(s)
	case 7:
		// hostile input on a private decoder must not touch shared state either
		NewDecoder(nil, tm).Decode([]byte{vUint8("garbage"), 0x01, 0x41})
		vAssert("returned", true)
	}
}
