//go:build verif

package hessian

import "time"

// vText: a valid UTF-8 string of n ASCII-or-2-byte code points chosen by the solver.
func vText(name string, n int) string {
	rs := make([]rune, n)
	for i := range rs {
		r := vRune(name)
		vAssume(r >= 1 && r <= 0x7ff)
		rs[i] = r
	}
	return string(rs)
}

func vMsInstant() time.Time {
	sec := vInt64("sec")
	ms := vInt64("ms")
	vAssume(sec >= vMinSec)
	vAssume(sec <= vMaxSec)
	vAssume(ms >= 0)
	vAssume(ms <= 999)
	return time.Unix(sec, ms*1000000)
}

func zScalarsBase() *ZScalars {
	return &ZScalars{B: true, I8: -5, I16: 300, I32: -70000, I: 1 << 20, I64: -(1 << 40), U8: 200, U16: 65535, U32: 1 << 31,
		U: 1 << 33, U64: 1 << 62, F32: 1.5, F64: -2.25, S: "héllo", Bs: []byte{1, 2, 3}, T: time.Unix(1600000000, 123000000)}
}

// zScalarsSym makes field k of v symbolic (all values of its type).
func zScalarsSym(v *ZScalars, k int) {
	switch k {
	case 0:
		v.B = vBool("b")
	case 1:
		v.I8 = vInt8("i8")
	case 2:
		v.I16 = vInt16("i16")
	case 3:
		v.I32 = vInt32("i32")
	case 4:
		// a Go int wider than the 32-bit wire int is C07's subject (carried exactly or refused)
		v.I = vInt("i")
		vAssume(v.I >= -2147483648)
		vAssume(v.I <= 2147483647)
	case 5:
		v.I64 = vInt64("i64")
	case 6:
		v.U8 = vUint8("u8")
	case 7:
		v.U16 = vUint16("u16")
	case 8:
		v.U32 = vUint32("u32")
	case 9:
		v.U = vUint("u")
	case 10:
		v.U64 = vUint64("u64")
	case 11:
		v.F32 = vFloat32("f32")
	case 12:
		v.F64 = vFloat64("f64")
	case 13:
		v.S = "s" + string([]rune{vScalar("s")}) + "t" // any Unicode scalar value, every UTF-8 width
	case 14:
		v.Bs = vBytes("bs", 2)
	case 15:
		v.T = vMsInstant()
	}
}

func rtZScalars(v *ZScalars) {
	typMap, nameMap := vExtract(v)
	bs, err := ToBytes(v, nameMap)
	vAssert("encode-noerr", err == nil)
	out, err := ToObject(bs, typMap)
	vAssert("decode-noerr", err == nil)
	got, ok := out.(*ZScalars)
	vAssert("type", ok)
	vAssert("equal", eqZScalars(v, got))
}

// H_C01_scalars: a struct holding every scalar kind round-trips; one field at a time takes every value of
// its type (the others hold fixed non-trivial values), thorough tier: every pair of fields.
func H_C01_scalars() {
	v := zScalarsBase()
	k := vChoice("field", 16)
	zScalarsSym(v, k)
	if vTier() == 1 && k < 15 {
		// thorough: also the next field, so that every adjacent pair of wire forms is crossed
		zScalarsSym(v, k+1)
	}
	rtZScalars(v)
}

func vInner(tag string) *ZInner { return &ZInner{N: vInt32(tag + "n"), S: vText(tag+"s", 1)} }

// H_C01_nested: struct by value, pointer to struct (nil / non-nil). One leaf at a time takes every value of
// its type (thorough tier: every pair of leaves).
func H_C01_nested() {
	v := &ZOuter{A: 300, Z: -(1 << 40)}
	v.In = ZInner{N: -70000, S: "in"}
	hasP := vChoice("p", 2) == 1
	if hasP {
		v.P = &ZInner{N: 5, S: "p"}
	}
	sym := func(leaf int) {
		switch leaf {
		case 0:
			v.A = vInt32("a")
		case 1:
			v.Z = vInt64("z")
		case 2:
			v.In.N = vInt32("inn")
		case 3:
			v.In.S = vText("ins", 2)
		case 4:
			if hasP {
				v.P.N = vInt32("pn")
			}
		case 5:
			if hasP {
				v.P.S = vText("ps", 2)
			}
		}
	}
	l1 := vChoice("leaf", 6)
	sym(l1)
	if vTier() == 1 {
		l2 := vChoice("leaf2", 6)
		vAssume(l2 > l1)
		sym(l2)
	}
	typMap, nameMap := vExtract(v)
	bs, err := ToBytes(v, nameMap)
	vAssert("encode-noerr", err == nil)
	out, err := ToObject(bs, typMap)
	vAssert("decode-noerr", err == nil)
	got, ok := out.(*ZOuter)
	vAssert("type", ok)
	vAssert("equal", eqZOuter(v, got))
}

// H_C01_embed: embedded struct.
func H_C01_embed() {
	v := &ZEmbed{X: vInt32("x")}
	v.ZInner = *vInner("e")
	typMap, nameMap := vExtract(v)
	bs, err := ToBytes(v, nameMap)
	vAssert("encode-noerr", err == nil)
	out, err := ToObject(bs, typMap)
	vAssert("decode-noerr", err == nil)
	got, ok := out.(*ZEmbed)
	vAssert("type", ok)
	vAssert("equal", vAnd(got.X == v.X, eqZInner(&got.ZInner, &v.ZInner)))
}

var zListLensQuick = []int{0, 1, 2, 3, 7, 8, 9, 15, 16, 17, 31, 32, 255, 256, 257, 263, 264}

func zListLen() int {
	if vTier() == 1 {
		// thorough: every length 0..300 (all length forms, the 8-bit wrap points 255..264 included), the wrap points of
		// the next multiple of 256, 600, and lengths around the decoder's allocation chunk (4096)
		extra := []int{511, 512, 513, 519, 520, 600, 4096, 4097, 8193}
		n := vChoice("len", 301+len(extra))
		if n > 300 {
			return extra[n-301]
		}
		return n
	}
	return zListLensQuick[vChoice("len", len(zListLensQuick))]
}

// H_C01_lists: typed lists of every element kind at every length form; one element (at a solver-chosen
// position among first / middle / last) takes every value, the rest is concrete filler.
func H_C01_lists() {
	n := zListLen()
	which := vChoice("list", 5)
	v := &ZLists{}
	pos := 0
	if n > 0 {
		pos = []int{0, n / 2, n - 1}[vChoice("pos", 3)]
	}
	switch which {
	case 0:
		v.Ss = make([]string, n)
		for i := range v.Ss {
			v.Ss[i] = "s"
		}
		if n > 0 {
			v.Ss[pos] = vText("s", 1)
		}
	case 1:
		v.Is = make([]int32, n, n+3) // spare capacity: the element count on the wire is the length
		for i := range v.Is {
			v.Is[i] = int32(i)
		}
		if n > 0 {
			v.Is[pos] = vInt32("i")
		}
	case 2:
		v.Ls = make([]int64, n)
		for i := range v.Ls {
			v.Ls[i] = int64(i) << 20
		}
		if n > 0 {
			v.Ls[pos] = vInt64("l")
		}
	case 3:
		v.Fs = make([]float64, n)
		for i := range v.Fs {
			v.Fs[i] = float64(i) + 0.5
		}
		if n > 0 {
			v.Fs[pos] = vFloat64("f")
		}
	case 4:
		v.Ps = make([]*ZInner, n)
		for i := range v.Ps {
			v.Ps[i] = &ZInner{N: int32(i), S: "p"}
		}
		if n > 0 {
			v.Ps[pos] = vInner("p")
		}
	}
	typMap, nameMap := vExtract(v)
	bs, err := ToBytes(v, nameMap)
	vAssert("encode-noerr", err == nil)
	out, err := ToObject(bs, typMap)
	vAssert("decode-noerr", err == nil)
	got, ok := out.(*ZLists)
	vAssert("type", ok)
	vAssert("equal", eqZLists(v, got))
}

// H_C01_maps: maps with 0..2 entries; one key or one value is symbolic at a time (every value of its type),
// every iteration order of the encoder is explored; the comparison looks entries up instead of ranging.
func H_C01_maps() {
	v := &ZMaps{}
	n := vChoice("n", 3)
	symKey := vChoice("symbolic", 2) == 0
	if vChoice("which", 2) == 0 {
		keys := []string{"ka", "kb"}
		vals := []int32{100, -70000}
		if n > 0 {
			if symKey {
				keys[0] = vText("k", 1)
				vAssume(keys[0] != keys[1])
			} else {
				vals[0] = vInt32("v")
			}
		}
		v.M1 = map[string]int32{}
		for i := 0; i < n; i++ {
			v.M1[keys[i]] = vals[i]
		}
		got := rtZMaps(v)
		vAssert("m1-size", len(got.M1) == n && len(got.M2) == 0)
		ok := true
		for i := 0; i < n; i++ {
			x, has := got.M1[keys[i]]
			ok = vAnd(ok, vAnd(has, x == vals[i]))
		}
		vAssert("m1-entries", ok)
		return
	}
	keys := []int32{5, -3000}
	vals := []string{"va", "vb"}
	if n > 0 {
		if symKey {
			keys[0] = vInt32("k")
			vAssume(keys[0] != keys[1])
		} else {
			vals[0] = vText("v", 1)
		}
	}
	v.M2 = map[int32]string{}
	for i := 0; i < n; i++ {
		v.M2[keys[i]] = vals[i]
	}
	got := rtZMaps(v)
	vAssert("m2-size", len(got.M2) == n && len(got.M1) == 0)
	ok := true
	for i := 0; i < n; i++ {
		x, has := got.M2[keys[i]]
		ok = vAnd(ok, vAnd(has, x == vals[i]))
	}
	vAssert("m2-entries", ok)
}

func rtZMaps(v *ZMaps) *ZMaps {
	typMap, nameMap := vExtract(v)
	bs, err := ToBytes(v, nameMap)
	vAssert("encode-noerr", err == nil)
	out, err := ToObject(bs, typMap)
	vAssert("decode-noerr", err == nil)
	got, ok := out.(*ZMaps)
	vAssert("type", ok)
	return got
}

// H_C01_toplevel: top-level scalars come back in their canonical wire type.
type ZSelfKids struct {
	N    int32
	Kids []*ZSelfKids
}

func H_C01_toplevel() {
	switch vChoice("kind", 12) {
	case 11: // a top-level []T whose element type also has a []*T field: both travel as "[T" (known finding)
		x := []ZSelfKids{{N: vInt32("x"), Kids: []*ZSelfKids{{N: 2}}}}
		typMap, nameMap := vExtract(x)
		bs, err := ToBytes(x, nameMap)
		vAssert("enc", err == nil)
		out, err := ToObject(bs, typMap)
		vAssert("dec", err == nil)
		if vIsOpen("C01-toplevel-slice-comes-back-in-pointer-form") {
			got, ok := out.([]*ZSelfKids)
			vAssert("slice-elements", ok && len(got) == 1 && got[0] != nil && got[0].N == x[0].N && len(got[0].Kids) == 1 && got[0].Kids[0].N == 2)
		} else {
			got, ok := out.([]ZSelfKids)
			vAssert("slice-same-dynamic-type", ok && len(got) == 1 && got[0].N == x[0].N && len(got[0].Kids) == 1 && got[0].Kids[0].N == 2)
		}
	case 9: // a struct passed by value: the wire has objects only, the decoder hands out a pointer (known finding)
		x := ZInner{N: vInt32("x"), S: "v"}
		typMap, nameMap := vExtract(x)
		bs, err := ToBytes(x, nameMap)
		vAssert("enc", err == nil)
		out, err := ToObject(bs, typMap)
		vAssert("dec", err == nil)
		if vIsOpen("C01-toplevel-struct-comes-back-as-pointer") {
			got, ok := out.(*ZInner)
			vAssert("struct-fields", ok && got != nil && got.N == x.N && got.S == "v")
		} else {
			got, ok := out.(ZInner)
			vAssert("struct-same-dynamic-type", ok && got.N == x.N && got.S == "v")
		}
	case 10: // a map of an unnamed Go map type on its own travels untyped (known finding, as in C06)
		x := map[string]int32{"k": vInt32("x")}
		typMap, nameMap := vExtract(x)
		bs, err := ToBytes(x, nameMap)
		vAssert("enc", err == nil)
		out, err := ToObject(bs, typMap)
		vAssert("dec", err == nil)
		if vIsOpen("C01-bare-map-loses-go-type") {
			got, ok := out.(map[interface{}]interface{})
			vAssert("map-entries", ok && len(got) == 1 && got["k"] == interface{}(x["k"]))
		} else {
			got, ok := out.(map[string]int32)
			vAssert("map-same-dynamic-type", ok && len(got) == 1 && got["k"] == x["k"])
		}
	case 0:
		x := vInt32("x")
		bs, err := ToBytes(x, nil)
		vAssert("enc", err == nil)
		out, err := ToObject(bs, nil)
		got, ok := out.(int32)
		vAssert("int32", err == nil && ok && got == x)
	case 1:
		x := vInt64("x")
		bs, err := ToBytes(x, nil)
		vAssert("enc", err == nil)
		out, err := ToObject(bs, nil)
		got, ok := out.(int64)
		vAssert("int64", err == nil && ok && got == x)
	case 2:
		x := vFloat64("x")
		bs, err := ToBytes(x, nil)
		vAssert("enc", err == nil)
		out, err := ToObject(bs, nil)
		got, ok := out.(float64)
		vAssert("float64", err == nil && ok && eqF64(got, x))
	case 3:
		x := vText("x", 2)
		bs, err := ToBytes(x, nil)
		vAssert("enc", err == nil)
		out, err := ToObject(bs, nil)
		got, ok := out.(string)
		vAssert("string", err == nil && ok && got == x)
	case 4:
		x := vBool("x")
		bs, err := ToBytes(x, nil)
		vAssert("enc", err == nil)
		out, err := ToObject(bs, nil)
		got, ok := out.(bool)
		vAssert("bool", err == nil && ok && got == x)
	case 5:
		x := vBytes("x", 3)
		bs, err := ToBytes(x, nil)
		vAssert("enc", err == nil)
		out, err := ToObject(bs, nil)
		got, ok := out.([]byte)
		vAssert("bytes", err == nil && ok && eqBytes(got, x))
	case 6:
		x := vMsInstant()
		vAssume(!x.IsZero())
		bs, err := ToBytes(x, nil)
		vAssert("enc", err == nil)
		out, err := ToObject(bs, nil)
		got, ok := out.(time.Time)
		vAssert("time", err == nil && ok && eqInstant(got, x))
	case 7:
		x := vInt16("x")
		bs, err := ToBytes(x, nil)
		vAssert("enc", err == nil)
		out, err := ToObject(bs, nil)
		got, ok := out.(int32)
		vAssert("int16-as-int32", err == nil && ok && got == int32(x))
	case 8:
		x := vUint32("x")
		bs, err := ToBytes(x, nil)
		vAssert("enc", err == nil)
		out, err := ToObject(bs, nil)
		got, ok := out.(int64)
		vAssert("uint32-as-int64", err == nil && ok && got == int64(x))
	}
}

// H_C01_many_classes: 1..19 distinct classes in one message (definition indexes 2, 15, 16, 17, 18 are crossed),
// with a second instance of an earlier class at the end.
func H_C01_many_classes() {
	n := 1 + vChoice("classes", 19)
	again := []int{0, 2, 15, 16, 17}[vChoice("again", 5)]
	vAssume(again < n)
	x := vInt32("x")
	v := zManyClasses(n, x, again)
	typMap, nameMap := vExtract(v)
	bs, err := ToBytes(v, nameMap)
	vAssert("encode-noerr", err == nil)
	out, err := ToObject(bs, typMap)
	vAssert("decode-noerr", err == nil)
	got, ok := out.([]interface{})
	vAssert("shape", ok && len(got) == n+1)
	same := true
	for i := range v {
		same = vAnd(same, zClassV(got[i]) == zClassV(v[i]))
	}
	vAssert("equal", same)
}

type ZMapKinds struct {
	S map[string]ZInner
	P map[string]*ZInner
	I map[string]int
	L map[string][]int32
	F map[int64]float64
	U map[string]uint16
	T map[string]time.Time
}

// H_C01_map_values: maps whose values are structs (by value and by pointer, the struct type reachable only through
// the map), Go ints, lists, doubles keyed by longs, small unsigned ints.
func H_C01_map_values() {
	x := vInt32("x")
	v := &ZMapKinds{}
	which := vChoice("which", 9)
	switch which {
	case 6: // a null value beside a real one: the entry stays, with a nil pointer
		v.P = map[string]*ZInner{"k": nil, "j": {N: x, S: "s"}}
	case 7: // a nil list value (comes back nil or empty) beside a real one
		v.L = map[string][]int32{"k": nil, "j": {x}}
	case 8: // the zero time travels as null
		v.T = map[string]time.Time{"k": {}, "j": time.Unix(int64(x), 0)}
	case 0:
		v.S = map[string]ZInner{"k": {N: x, S: "s"}}
	case 1:
		v.P = map[string]*ZInner{"k": {N: x, S: "s"}}
	case 2:
		v.I = map[string]int{"k": int(x)}
	case 3:
		v.L = map[string][]int32{"k": {1, x}}
	case 4:
		v.F = map[int64]float64{int64(x) << 16: 2.5}
	case 5:
		v.U = map[string]uint16{"k": uint16(x)}
	}
	typMap, nameMap := vExtract(v)
	bs, err := ToBytes(v, nameMap)
	vAssert("encode-noerr", err == nil)
	out, err := ToObject(bs, typMap)
	vAssert("decode-noerr", err == nil)
	g, ok := out.(*ZMapKinds)
	vAssert("type", ok)
	vAssert("sizes", len(g.S) == len(v.S) && len(g.P) == len(v.P) && len(g.I) == len(v.I) && len(g.L) == len(v.L) && len(g.F) == len(v.F) && len(g.U) == len(v.U) && len(g.T) == len(v.T))
	switch which {
	case 6:
		e, has := g.P["k"]
		j, hasj := g.P["j"]
		vAssert("null-pointer-value", has && e == nil && hasj && j != nil && j.N == x)
	case 7:
		e, has := g.L["k"]
		j, hasj := g.L["j"]
		vAssert("nil-list-value", has && len(e) == 0 && hasj && len(j) == 1 && j[0] == x)
	case 8:
		e, has := g.T["k"]
		j, hasj := g.T["j"]
		vAssert("zero-time-value", has && e.IsZero() && hasj && j.Unix() == int64(x))
	case 0:
		e, has := g.S["k"]
		vAssert("struct-value", has && e.N == x && e.S == "s")
	case 1:
		e, has := g.P["k"]
		vAssert("pointer-value", has && e != nil && e.N == x && e.S == "s")
	case 2:
		e, has := g.I["k"]
		vAssert("int-value", has && e == int(x))
	case 3:
		e, has := g.L["k"]
		vAssert("list-value", has && len(e) == 2 && e[0] == 1 && e[1] == x)
	case 4:
		e, has := g.F[int64(x)<<16]
		vAssert("long-key", has && e == 2.5)
	case 5:
		e, has := g.U["k"]
		vAssert("uint16-value", has && e == uint16(x))
	}
}

type ZCelsius float64
type ZID int64
type ZName string
type ZFlag bool
type ZSmall uint8

type ZNamedScalars struct {
	C ZCelsius
	I ZID
	N ZName
	F ZFlag
	S ZSmall
	L []ZID
}

// H_C01_named_scalars: values of named scalar types are carried like their underlying kind.
func H_C01_named_scalars() {
	v := &ZNamedScalars{C: 36.6, I: 1 << 40, N: "nm", F: true, S: 200, L: []ZID{1, 2}}
	switch vChoice("field", 6) {
	case 0:
		v.C = ZCelsius(vFloat64("c"))
	case 1:
		v.I = ZID(vInt64("i"))
	case 2:
		v.N = ZName(vText("n", 2))
	case 3:
		v.F = ZFlag(vBool("f"))
	case 4:
		v.S = ZSmall(vUint8("s"))
	case 5:
		v.L[1] = ZID(vInt64("l"))
	}
	typMap, nameMap := vExtract(v)
	bs, err := ToBytes(v, nameMap)
	vAssert("encode-noerr", err == nil)
	out, err := ToObject(bs, typMap)
	vAssert("decode-noerr", err == nil)
	g, ok := out.(*ZNamedScalars)
	vAssert("type", ok && len(g.L) == 2)
	same := vAnd(eqF64(float64(g.C), float64(v.C)), vAnd(g.I == v.I, vAnd(g.N == v.N, vAnd(g.F == v.F, g.S == v.S))))
	vAssert("equal", vAnd(same, vAnd(g.L[0] == v.L[0], g.L[1] == v.L[1])))
}
