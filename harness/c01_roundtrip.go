//go:build verif

package hessian

import "time"

// vText: a valid UTF-8 string of n ASCII-or-2-byte code points chosen by the solver.
func vText(name string, n int) string {
	rs := make([]rune, n)
	for i := range rs {
		r := vRune(name)
		vAssume(r >= 1 && r <= 0x7ff)
		rs[i] = r
	}
	return string(rs)
}

func vMsInstant() time.Time {
	sec := vInt64("sec")
	ms := vInt64("ms")
	vAssume(sec >= vMinSec)
	vAssume(sec <= vMaxSec)
	vAssume(ms >= 0)
	vAssume(ms <= 999)
	return time.Unix(sec, ms*1000000)
}

func zScalarsBase() *ZScalars {
	return &ZScalars{B: true, I8: -5, I16: 300, I32: -70000, I: 1 << 20, I64: -(1 << 40), U8: 200, U16: 65535, U32: 1 << 31,
		U: 1 << 33, U64: 1 << 62, F32: 1.5, F64: -2.25, S: "héllo", Bs: []byte{1, 2, 3}, T: time.Unix(1600000000, 123000000)}
}

// zScalarsSym makes field k of v symbolic (all values of its type).
func zScalarsSym(v *ZScalars, k int) {
	switch k {
	case 0:
		v.B = vBool("b")
	case 1:
		v.I8 = vInt8("i8")
	case 2:
		v.I16 = vInt16("i16")
	case 3:
		v.I32 = vInt32("i32")
	case 4:
		// a Go int wider than the 32-bit wire int is C07's subject (carried exactly or refused)
		v.I = vInt("i")
		vAssume(v.I >= -2147483648)
		vAssume(v.I <= 2147483647)
	case 5:
		v.I64 = vInt64("i64")
	case 6:
		v.U8 = vUint8("u8")
	case 7:
		v.U16 = vUint16("u16")
	case 8:
		v.U32 = vUint32("u32")
	case 9:
		v.U = vUint("u")
	case 10:
		v.U64 = vUint64("u64")
	case 11:
		v.F32 = vFloat32("f32")
	case 12:
		v.F64 = vFloat64("f64")
	case 13:
		v.S = vText("s", 2)
	case 14:
		v.Bs = vBytes("bs", 2)
	case 15:
		v.T = vMsInstant()
	}
}

func rtZScalars(v *ZScalars) {
	typMap, nameMap := ExtractTypeNameMap(v)
	bs, err := ToBytes(v, nameMap)
	vAssert("encode-noerr", err == nil)
	out, err := ToObject(bs, typMap)
	vAssert("decode-noerr", err == nil)
	got, ok := out.(*ZScalars)
	vAssert("type", ok)
	vAssert("equal", eqZScalars(v, got))
}

// H_C01_scalars: a struct holding every scalar kind round-trips; one field at a time takes every value of
// its type (the others hold fixed non-trivial values), thorough tier: every pair of fields.
func H_C01_scalars() {
	v := zScalarsBase()
	k := vChoice("field", 16)
	zScalarsSym(v, k)
	if vTier() == 1 {
		k2 := vChoice("field2", 16)
		vAssume(k2 > k)
		zScalarsSym(v, k2)
	}
	rtZScalars(v)
}
