//go:build verif

package hessian

import "math"

// refParse: an independent reader of the Hessian 2.0 serialization grammar, written from the published
// specification's byte-code map (not from gohessian's decoder; it shares no code with it):
//
//	x00-x1f string len 0-31        x20-x2f binary len 0-15       x30-x33 string len 0-1023
//	x34-x37 binary len 0-1023      x38-x3f 3-octet long           x41 'A' binary non-final chunk
//	x42 'B' binary final chunk     x43 'C' class definition       x44 'D' 64-bit double
//	x46 'F' false                  x48 'H' untyped map            x49 'I' 32-bit int
//	x4a date, 64-bit ms            x4b date, 32-bit minutes       x4c 'L' 64-bit long
//	x4d 'M' typed map              x4e 'N' null                   x4f 'O' object, int definition index
//	x51 ref                        x52 'R' string non-final chunk x53 'S' string final chunk
//	x54 'T' true                   x55 var-length typed list      x56 'V' fixed-length typed list
//	x57 var-length untyped list    x58 fixed-length untyped list  x59 long as 32-bit int
//	x5a 'Z' terminator             x5b double 0.0  x5c double 1.0 x5d double byte  x5e double short
//	x5f double as 32-bit float     x60-x6f object, definition #0-15
//	x70-x77 fixed typed list len 0-7     x78-x7f fixed untyped list len 0-7
//	x80-xbf 1-octet int  xc0-xcf 2-octet int  xd0-xd7 3-octet int  xd8-xef 1-octet long  xf0-xff 2-octet long
//
// Lists, maps and object instances are numbered in stream order (the ordinal a later x51 refers to); type
// names of typed lists/maps and class definitions are numbered in order of first appearance.

type AV struct {
	Kind   byte // 'N' 'T'(bool) 'I' 'L' 'D' 'S' 'B' 'd'(date) 'V'(list) 'M'(map) 'O'(object) 'R'(ref)
	Bool   bool
	Int    int64 // I, L; date: milliseconds since epoch
	F      float64
	Str    string
	Bytes  []byte
	Type   string   // list/map type name, object class name ("" = untyped)
	Fields []string // object: field names of its class definition
	Items  []*AV    // list elements; map: key,value alternating; object: field values
	Ref    int      // R: ordinal referred to
	Ord    int      // ordinal of this list/map/object in stream order, -1 otherwise
	DefIdx int      // object: index of its class definition
	DefPos int      // object: stream offset at which its definition was parsed
	Pos    int      // stream offset of the instance
}

type refDef struct {
	name   string
	fields []string
	pos    int
}

type refParser struct {
	b     []byte
	pos   int
	types []string
	defs  []refDef
	nref  int
	err   string
}

func (p *refParser) fail(msg string) {
	if p.err == "" {
		p.err = msg
	}
}

func (p *refParser) u8() byte {
	if p.err != "" {
		return 0
	}
	if p.pos >= len(p.b) {
		p.fail("unexpected end of input")
		return 0
	}
	c := p.b[p.pos]
	p.pos++
	return c
}

func (p *refParser) beInt(n int) int64 {
	var v uint64
	for i := 0; i < n; i++ {
		v = v<<8 | uint64(p.u8())
	}
	switch n {
	case 1:
		return int64(int8(v))
	case 2:
		return int64(int16(v))
	case 4:
		return int64(int32(v))
	}
	return int64(v)
}

// chars reads n UTF-8 encoded characters.
func (p *refParser) chars(n int) string {
	start := p.pos
	for i := 0; i < n && p.err == ""; i++ {
		c := p.u8()
		switch {
		case c < 0x80:
		case c >= 0xc2 && c <= 0xdf:
			p.cont()
		case c >= 0xe0 && c <= 0xef:
			p.cont()
			p.cont()
		case c >= 0xf0 && c <= 0xf4:
			p.cont()
			p.cont()
			p.cont()
		default:
			p.fail("malformed UTF-8 lead byte in string")
		}
	}
	if p.err != "" {
		return ""
	}
	return string(p.b[start:p.pos])
}

func (p *refParser) cont() {
	c := p.u8()
	if p.err == "" && (c < 0x80 || c > 0xbf) {
		p.fail("malformed UTF-8 continuation byte in string")
	}
}

func (p *refParser) stringFrom(tag byte) string {
	s := ""
	for {
		switch {
		case tag <= 0x1f:
			return s + p.chars(int(tag))
		case tag >= 0x30 && tag <= 0x33:
			n := int(tag-0x30)<<8 | int(p.u8())
			return s + p.chars(n)
		case tag == 'S':
			n := int(p.u8())<<8 | int(p.u8())
			return s + p.chars(n)
		case tag == 'R':
			n := int(p.u8())<<8 | int(p.u8())
			s += p.chars(n)
			if p.err != "" {
				return ""
			}
			tag = p.u8()
		default:
			p.fail("string chunk expected")
			return ""
		}
		if p.err != "" {
			return ""
		}
	}
}

func (p *refParser) raw(n int) []byte {
	if p.err != "" {
		return nil
	}
	if p.pos+n > len(p.b) {
		p.fail("unexpected end of input in binary")
		return nil
	}
	r := p.b[p.pos : p.pos+n]
	p.pos += n
	return r
}

func (p *refParser) binaryFrom(tag byte) []byte {
	var out []byte
	for {
		switch {
		case tag >= 0x20 && tag <= 0x2f:
			return append(out, p.raw(int(tag-0x20))...)
		case tag >= 0x34 && tag <= 0x37:
			n := int(tag-0x34)<<8 | int(p.u8())
			return append(out, p.raw(n)...)
		case tag == 'B':
			n := int(p.u8())<<8 | int(p.u8())
			return append(out, p.raw(n)...)
		case tag == 'A':
			n := int(p.u8())<<8 | int(p.u8())
			out = append(out, p.raw(n)...)
			if p.err != "" {
				return nil
			}
			tag = p.u8()
		default:
			p.fail("binary chunk expected")
			return nil
		}
		if p.err != "" {
			return nil
		}
	}
}

// intValue reads a value that must be an int (lengths, counts, indices).
func (p *refParser) intValue() int {
	v := p.value()
	if p.err != "" {
		return 0
	}
	if v.Kind != 'I' {
		p.fail("int expected")
		return 0
	}
	return int(v.Int)
}

func (p *refParser) typeName() string {
	tag := p.u8()
	if p.err != "" {
		return ""
	}
	if tag <= 0x1f || (tag >= 0x30 && tag <= 0x33) || tag == 'S' || tag == 'R' {
		t := p.stringFrom(tag)
		p.types = append(p.types, t)
		return t
	}
	p.pos--
	i := p.intValue()
	if p.err != "" {
		return ""
	}
	if i < 0 || i >= len(p.types) {
		p.fail("type reference out of range")
		return ""
	}
	return p.types[i]
}

func (p *refParser) newOrd() int {
	o := p.nref
	p.nref++
	return o
}

func (p *refParser) items(v *AV, n int) {
	for i := 0; i < n && p.err == ""; i++ {
		v.Items = append(v.Items, p.value())
	}
}

func (p *refParser) itemsUntilZ(v *AV, pairs bool) {
	for p.err == "" {
		if p.pos < len(p.b) && p.b[p.pos] == 'Z' {
			p.pos++
			return
		}
		v.Items = append(v.Items, p.value())
		if pairs && p.err == "" {
			v.Items = append(v.Items, p.value())
		}
	}
}

func (p *refParser) object(idx int, at int) *AV {
	if idx < 0 || idx >= len(p.defs) {
		p.fail("object refers to a class definition that has not been sent")
		return &AV{Kind: 'O', Ord: -1}
	}
	d := p.defs[idx]
	v := &AV{Kind: 'O', Type: d.name, Fields: d.fields, Ord: p.newOrd(), DefIdx: idx, DefPos: d.pos, Pos: at}
	p.items(v, len(d.fields))
	return v
}

func (p *refParser) value() *AV {
	at := p.pos
	tag := p.u8()
	v := &AV{Ord: -1, Pos: at}
	if p.err != "" {
		return v
	}
	switch {
	case tag == 'N':
		v.Kind = 'N'
	case tag == 'T' || tag == 'F':
		v.Kind, v.Bool = 'T', tag == 'T'
	case tag >= 0x80 && tag <= 0xbf:
		v.Kind, v.Int = 'I', int64(tag)-0x90
	case tag >= 0xc0 && tag <= 0xcf:
		v.Kind, v.Int = 'I', (int64(tag)-0xc8)<<8|int64(p.u8())
	case tag >= 0xd0 && tag <= 0xd7:
		hi := int64(tag) - 0xd4
		mid := int64(p.u8())
		v.Kind, v.Int = 'I', hi<<16|mid<<8|int64(p.u8())
	case tag == 'I':
		v.Kind, v.Int = 'I', p.beInt(4)
	case tag >= 0xd8 && tag <= 0xef:
		v.Kind, v.Int = 'L', int64(tag)-0xe0
	case tag >= 0xf0:
		v.Kind, v.Int = 'L', (int64(tag)-0xf8)<<8|int64(p.u8())
	case tag >= 0x38 && tag <= 0x3f:
		hi := int64(tag) - 0x3c
		mid := int64(p.u8())
		v.Kind, v.Int = 'L', hi<<16|mid<<8|int64(p.u8())
	case tag == 0x59:
		v.Kind, v.Int = 'L', p.beInt(4)
	case tag == 'L':
		v.Kind, v.Int = 'L', p.beInt(8)
	case tag == 0x5b:
		v.Kind, v.F = 'D', 0
	case tag == 0x5c:
		v.Kind, v.F = 'D', 1
	case tag == 0x5d:
		v.Kind, v.F = 'D', float64(p.beInt(1))
	case tag == 0x5e:
		v.Kind, v.F = 'D', float64(p.beInt(2))
	case tag == 0x5f:
		v.Kind, v.F = 'D', float64(math.Float32frombits(uint32(p.beInt(4))))
	case tag == 'D':
		v.Kind, v.F = 'D', math.Float64frombits(uint64(p.beInt(8)))
	case tag == 0x4a:
		v.Kind, v.Int = 'd', p.beInt(8)
	case tag == 0x4b:
		v.Kind, v.Int = 'd', p.beInt(4)*60000
	case tag <= 0x1f || (tag >= 0x30 && tag <= 0x33) || tag == 'S' || tag == 'R':
		v.Kind, v.Str = 'S', p.stringFrom(tag)
	case (tag >= 0x20 && tag <= 0x2f) || (tag >= 0x34 && tag <= 0x37) || tag == 'A' || tag == 'B':
		v.Kind, v.Bytes = 'B', p.binaryFrom(tag)
	case tag == 0x51:
		v.Kind, v.Ref = 'R', p.intValue()
		if p.err == "" && (v.Ref < 0 || v.Ref >= p.nref) {
			p.fail("back-reference to an ordinal that has not been sent")
		}
	case tag == 0x55:
		v.Kind, v.Type, v.Ord = 'V', p.typeName(), p.newOrd()
		p.itemsUntilZ(v, false)
	case tag == 'V':
		v.Kind, v.Type, v.Ord = 'V', p.typeName(), p.newOrd()
		n := p.intValue()
		if n < 0 {
			p.fail("negative list length")
		}
		p.items(v, n)
	case tag == 0x57:
		v.Kind, v.Ord = 'V', p.newOrd()
		p.itemsUntilZ(v, false)
	case tag == 0x58:
		v.Kind, v.Ord = 'V', p.newOrd()
		n := p.intValue()
		if n < 0 {
			p.fail("negative list length")
		}
		p.items(v, n)
	case tag >= 0x70 && tag <= 0x77:
		v.Kind, v.Type, v.Ord = 'V', p.typeName(), p.newOrd()
		p.items(v, int(tag-0x70))
	case tag >= 0x78 && tag <= 0x7f:
		v.Kind, v.Ord = 'V', p.newOrd()
		p.items(v, int(tag-0x78))
	case tag == 'M':
		v.Kind, v.Type, v.Ord = 'M', p.typeName(), p.newOrd()
		p.itemsUntilZ(v, true)
	case tag == 'H':
		v.Kind, v.Ord = 'M', p.newOrd()
		p.itemsUntilZ(v, true)
	case tag == 'C':
		dpos := at
		nt := p.u8()
		name := p.stringFrom(nt)
		n := p.intValue()
		if p.err == "" && n < 0 {
			p.fail("negative field count")
		}
		var fs []string
		for i := 0; i < n && p.err == ""; i++ {
			fs = append(fs, p.stringFrom(p.u8()))
		}
		if p.err != "" {
			return v
		}
		p.defs = append(p.defs, refDef{name, fs, dpos})
		return p.value() // a definition is followed by the value it introduces
	case tag == 'O':
		return p.object(p.intValue(), at)
	case tag >= 0x60 && tag <= 0x6f:
		return p.object(int(tag-0x60), at)
	default:
		p.fail("unassigned byte code")
	}
	return v
}

// refParse reads exactly one value; ok is false if the bytes are not one well-formed value.
func refParse(b []byte) (v *AV, consumed int, p *refParser) {
	p = &refParser{b: b}
	v = p.value()
	return v, p.pos, p
}
