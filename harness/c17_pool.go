//go:build verif

package hessian

// C17. Get and Return each perform exactly one channel operation inside a non-blocking select; channel
// operations are atomic by the language specification, so every concurrent execution is some sequential
// order of those steps. One step from an arbitrary pool state (capacity c, fill l, arbitrary distinct
// cached objects) therefore covers every history and any number of goroutines.

type vTok struct{ id int }

// vPoolState builds a pool of capacity c holding l distinct cached objects.
func vPoolState(c, l int) (*objectPool, []*vTok, *int) {
	made := 0
	p := newPool(c, func() interface{} {
		made++
		return &vTok{id: 1000 + made}
	}).(*objectPool)
	var cached []*vTok
	for i := 0; i < l; i++ {
		t := &vTok{id: i}
		cached = append(cached, t)
		p.cached <- t
	}
	return p, cached, &made
}

// H_C17_get_step: one Get from an arbitrary reachable pool state (capacity 0..8, fill 0..capacity): it does not
// block, hands out a cached object that leaves the pool (or a fresh one when the pool is empty), and nothing else
// changes - the inductive step that covers histories of any length.
func H_C17_get_step() {
	c := vChoice("cap", 9)
	l := vChoice("fill", c+1)
	p, cached, made := vPoolState(c, l)
	o := p.Get() // a blocking channel operation here would end the path as "blocked" (reported, never success)
	t, ok := o.(*vTok)
	vAssert("usable", ok && t != nil)
	fromPool := false
	for _, x := range cached {
		if x == t {
			fromPool = true
		}
	}
	if l == 0 {
		vAssert("fresh-from-empty-pool", !fromPool && *made == 1 && t.id == 1001)
	} else {
		// (which cached object is handed out, and whether a non-empty pool may build a fresh one instead, is the
		// pool's business: the property fixes neither)
		vAssert("cached-or-fresh", fromPool || (*made == 1 && t.id == 1001))
	}
	vAssert("bounded", len(p.cached) <= c && len(p.cached) <= l)
	// the object handed out is no longer cached: draining the pool never yields it again, and what remains are
	// objects that were there before, each once
	var rest []*vTok
	for len(p.cached) > 0 {
		x := (<-p.cached).(*vTok)
		vAssert("single-holder", x != t)
		known := false
		for _, y := range cached {
			if y == x {
				known = true
			}
		}
		vAssert("no-foreign-object", known)
		for _, y := range rest {
			vAssert("no-duplicate", y != x)
		}
		rest = append(rest, x)
	}
}

// H_C17_return_step: one Return into an arbitrary reachable pool state: it does not block, the object is kept
// exactly once or dropped, and the pool never holds more than its capacity.
func H_C17_return_step() {
	c := vChoice("cap", 9)
	l := vChoice("fill", c+1)
	p, cached, made := vPoolState(c, l)
	t := &vTok{id: 77}
	p.Return(t)
	vAssert("no-factory", *made == 0)
	vAssert("bounded", len(p.cached) <= c)
	// contents: objects that were cached before and the returned one, each at most once (kept or dropped is the
	// pool's choice; the order is not fixed by the property)
	var rest []*vTok
	for len(p.cached) > 0 {
		x := (<-p.cached).(*vTok)
		known := x == t
		for _, y := range cached {
			if y == x {
				known = true
			}
		}
		vAssert("no-foreign-object", known)
		for _, y := range rest {
			vAssert("kept-at-most-once", y != x)
		}
		rest = append(rest, x)
	}
}

// H_C17_factories: an object obtained from an empty library pool is fresh, of the documented type and usable.
func H_C17_factories() {
	size := vChoice("size", 3)
	x := vInt32("x")
	switch vChoice("pool", 3) {
	case 0:
		p := NewEncoderPool(size, map[string]string{})
		e1, ok1 := p.Get().(*Encoder)
		e2, ok2 := p.Get().(*Encoder)
		vAssert("encoder", ok1 && ok2 && e1 != nil && e2 != nil && e1 != e2)
		b, err := e1.Encode(x)
		vAssert("usable", err == nil && len(b) == specLenInt(x))
		p.Return(e1)
		p.Return(e2)
		g, g2 := p.Get(), p.Get()
		vAssert("handed-to-one-caller-each", g != g2 && g != nil && g2 != nil)
		if size == 0 {
			vAssert("fresh-when-size-0", g.(*Encoder) != e1 && g.(*Encoder) != e2)
		}
	case 1:
		p := NewDecoderPool(size, nil)
		d1, ok := p.Get().(*Decoder)
		vAssert("decoder", ok && d1 != nil)
		out, err := d1.Decode(encodeInt(x))
		vAssert("usable", err == nil && out.(int32) == x)
	case 2:
		p := NewSerializerPool(size, nil, map[string]string{})
		s1, ok := p.Get().(Serializer)
		vAssert("serializer", ok && s1 != nil)
		b, err := s1.ToBytes(x)
		vAssert("usable-enc", err == nil)
		out, err := s1.ToObject(b)
		vAssert("usable-dec", err == nil && out.(int32) == x)
	}
}

// H_C17_retention_all_pools: for each of the three public pools and every configured size 0..3: take size+2
// objects (all distinct, all fresh), return them all, take size+2 again: at most `size` of the objects handed out
// the second time are ones returned before (each at most once), the others are fresh; no call blocks.
// (The property allows a pool to keep fewer: only the upper bound is asserted.)
func H_C17_retention_all_pools() {
	size := vChoice("size", 4)
	var p Pool
	switch vChoice("pool", 3) {
	case 0:
		p = NewEncoderPool(size, map[string]string{})
	case 1:
		p = NewDecoderPool(size, nil)
	case 2:
		p = NewSerializerPool(size, nil, map[string]string{})
	}
	n := size + 2
	first := make([]interface{}, n)
	for i := range first {
		first[i] = p.Get()
		vAssert("usable", first[i] != nil)
		for j := 0; j < i; j++ {
			vAssert("distinct-holders", first[i] != first[j])
		}
	}
	for _, o := range first {
		p.Return(o)
	}
	reused := 0
	second := make([]interface{}, n)
	for i := range second {
		second[i] = p.Get()
		for j := 0; j < i; j++ {
			vAssert("handed-out-once", second[i] != second[j])
		}
		for _, o := range first {
			if second[i] == o {
				reused++
			}
		}
	}
	vAssert("retains-no-more-than-its-size", reused <= size)
}
