//go:build verif

package hessian

// C17. Get and Return each perform exactly one channel operation inside a non-blocking select; channel
// operations are atomic by the language specification, so every concurrent execution is some sequential
// order of those steps. One step from an arbitrary pool state (capacity c, fill l, arbitrary distinct
// cached objects) therefore covers every history and any number of goroutines.

type vTok struct{ id int }

// vPoolState builds a pool of capacity c holding l distinct cached objects.
func vPoolState(c, l int) (*objectPool, []*vTok, *int) {
	made := 0
	p := newPool(c, func() interface{} {
		made++
		return &vTok{id: 1000 + made}
	}).(*objectPool)
	var cached []*vTok
	for i := 0; i < l; i++ {
		t := &vTok{id: i}
		cached = append(cached, t)
		p.cached <- t
	}
	return p, cached, &made
}

func H_C17_get_step() {
	c := vChoice("cap", 9)
	l := vChoice("fill", c+1)
	p, cached, made := vPoolState(c, l)
	o := p.Get() // a blocking channel operation here would end the path as "blocked" (reported, never success)
	t, ok := o.(*vTok)
	vAssert("usable", ok && t != nil)
	if l > 0 {
		vAssert("hands-out-head", t == cached[0])
		vAssert("removed", len(p.cached) == l-1)
		vAssert("no-factory", *made == 0)
	} else {
		vAssert("fresh", *made == 1 && t.id == 1001)
		vAssert("still-empty", len(p.cached) == 0)
	}
	vAssert("bounded", len(p.cached) <= c)
	// the object handed out is no longer cached: draining the pool never yields it again
	for len(p.cached) > 0 {
		x := <-p.cached
		vAssert("single-holder", x.(*vTok) != t)
	}
}

func H_C17_return_step() {
	c := vChoice("cap", 9)
	l := vChoice("fill", c+1)
	p, cached, made := vPoolState(c, l)
	t := &vTok{id: 77}
	p.Return(t)
	vAssert("no-factory", *made == 0)
	if l < c {
		vAssert("appended", len(p.cached) == l+1)
	} else {
		vAssert("dropped", len(p.cached) == l)
	}
	vAssert("bounded", len(p.cached) <= c)
	// contents: the old objects in order, then (if kept) the returned one exactly once
	seen := 0
	i := 0
	for len(p.cached) > 0 {
		x := (<-p.cached).(*vTok)
		if i < l {
			vAssert("order", x == cached[i])
		} else {
			vAssert("tail-is-returned", x == t)
			seen++
		}
		i++
	}
	if l < c {
		vAssert("kept-once", seen == 1)
	} else {
		vAssert("kept-zero", seen == 0)
	}
}

// H_C17_factories: an object obtained from an empty library pool is fresh, of the documented type and usable.
func H_C17_factories() {
	size := vChoice("size", 3)
	x := vInt32("x")
	switch vChoice("pool", 3) {
	case 0:
		p := NewEncoderPool(size, map[string]string{})
		e1, ok1 := p.Get().(*Encoder)
		e2, ok2 := p.Get().(*Encoder)
		vAssert("encoder", ok1 && ok2 && e1 != nil && e2 != nil && e1 != e2)
		b, err := e1.Encode(x)
		vAssert("usable", err == nil && len(b) == specLenInt(x))
		p.Return(e1)
		p.Return(e2)
		g := p.Get()
		if size > 0 {
			vAssert("reuses-first-returned", g.(*Encoder) == e1)
		} else {
			vAssert("fresh-when-size-0", g.(*Encoder) != e1 && g.(*Encoder) != e2)
		}
	case 1:
		p := NewDecoderPool(size, nil)
		d1, ok := p.Get().(*Decoder)
		vAssert("decoder", ok && d1 != nil)
		out, err := d1.Decode(encodeInt(x))
		vAssert("usable", err == nil && out.(int32) == x)
	case 2:
		p := NewSerializerPool(size, nil, map[string]string{})
		s1, ok := p.Get().(Serializer)
		vAssert("serializer", ok && s1 != nil)
		b, err := s1.ToBytes(x)
		vAssert("usable-enc", err == nil)
		out, err := s1.ToObject(b)
		vAssert("usable-dec", err == nil && out.(int32) == x)
	}
}

// H_C17_retention_all_pools: for each of the three public pools and every configured size 0..3: take size+2
// objects (all distinct, all fresh), return them all, take size+2 again: at most `size` of the objects handed out
// the second time are ones returned before (each at most once), the others are fresh; no call blocks.
// (The property allows a pool to keep fewer: only the upper bound is asserted.)
func H_C17_retention_all_pools() {
	size := vChoice("size", 4)
	var p Pool
	switch vChoice("pool", 3) {
	case 0:
		p = NewEncoderPool(size, map[string]string{})
	case 1:
		p = NewDecoderPool(size, nil)
	case 2:
		p = NewSerializerPool(size, nil, map[string]string{})
	}
	n := size + 2
	first := make([]interface{}, n)
	for i := range first {
		first[i] = p.Get()
		vAssert("usable", first[i] != nil)
		for j := 0; j < i; j++ {
			vAssert("distinct-holders", first[i] != first[j])
		}
	}
	for _, o := range first {
		p.Return(o)
	}
	reused := 0
	second := make([]interface{}, n)
	for i := range second {
		second[i] = p.Get()
		for j := 0; j < i; j++ {
			vAssert("handed-out-once", second[i] != second[j])
		}
		for _, o := range first {
			if second[i] == o {
				reused++
			}
		}
	}
	vAssert("retains-no-more-than-its-size", reused <= size)
}
