//go:build verif

package hessian

import "reflect"

// zHistoryOp applies one earlier use to a serializer / encoder / decoder triple.
func zHistoryOp(op int, s Serializer, e *Encoder, d *Decoder) {
	zHistoryOpOn(op, s, e, d, nil)
}

// zHistoryOpOn: probe (may be nil) lets earlier uses involve the very objects the probe call will see.
func zHistoryOpOn(op int, s Serializer, e *Encoder, d *Decoder, probe *ZPair) {
	switch op {
	case 0: // nothing
	case 1: // successful one-shot encodes of other types
		s.ToBytes(&ZOuter{A: 1, In: ZInner{N: 2, S: "x"}, P: &ZInner{N: 3}})
		e.Encode(&ZOuter{A: 1, In: ZInner{N: 2, S: "x"}, P: &ZInner{N: 3}})
	case 2: // failing encode, after part of the value was written
		bad := []interface{}{&ZInner{N: 1, S: "a"}, make(chan int)}
		s.ToBytes(bad)
		e.Encode(bad)
	case 3: // successful decode
		b, _ := ToBytes(&ZInner{N: 5, S: "d"}, map[string]string{"ZInner": "ZInner"})
		s.ToObject(b)
		d.Decode(b)
	case 4: // decode of a damaged message (one arbitrary octet inside a class definition)
		gb := vUint8("garbage")
		vAssume(gb >= 0x41)
		vAssume(gb <= 0x7a)
		g := []byte{'C', 0x01, gb, 0x91, 0x01, 'n', 0x60}
		s.ToObject(g)
		d.Decode(g)
	case 5: // streaming writes and reads that leave definitions and refs behind
		w := &vBufWriter{}
		in := &ZInner{N: 9, S: "s"}
		s.WriteTo(w, in)
		s.Write(in)
		e.Reset(w)
		e.WriteObject(in)
		r := &vCountingReader{b: w.b}
		s.ReadFrom(r)
		d.Reset(&vCountingReader{b: w.b})
		d.ReadObject()
	case 6: // a class with the same name length, other fields, encoded first
		e.Encode(&ZTriple{A: 1, B: "b", C: 2})
		s.ToBytes(&ZTriple{A: 1, B: "b", C: 2})
	case 7: // earlier encodes of nil / empty containers and plain values only
		e.Encode([]string{})
		e.Encode(int32(5))
		s.ToBytes([]int32{})
		s.ToBytes("plain")
	case 8: // an earlier message that contained the probe's own objects (same addresses)
		if probe != nil {
			e.Encode(probe.B)
			e.Encode(probe)
			s.ToBytes([]interface{}{probe.A, probe.L})
		}
	case 9: // an earlier decode of the probe's classes from definitions that list the fields in another order
		w := refCat(refClassDef("ZPair", []string{"l", "b", "a", "n"}), []byte{0x60}, []byte{'N'},
			refClassDef("ZInner", []string{"s", "n"}), []byte{0x61}, refStr("x"), refInt(1), []byte{0x51, 0x91}, refInt(3))
		s.ToObject(w)
		d.Decode(w)
	case 11: // decodes that fail deep inside nested containers (reflect panics recovered at the entry point)
		bad := refCat([]byte{0x79, 0x79, 0x79, 'V'}, refStr("[int32"), refInt(1), refStr("not-an-int"))
		for i := 0; i < 3; i++ {
			s.ToObject(bad)
			d.Decode(bad)
		}
	case 10: // a failed encode of a container holding the probe's objects
		if probe != nil {
			bad := []interface{}{probe.A, probe, make(chan int)}
			e.Encode(bad)
			s.ToBytes(bad)
		}
	}
}

// ZPair: probe with shared pointers, so that its encoding contains back-references.
type ZPair struct {
	N int32
	A *ZInner
	B *ZInner
	L []*ZInner
}

func eqZPair(a, b *ZPair) bool {
	if a.A == nil || a.B == nil || b.A == nil || b.B == nil || len(a.L) != len(b.L) {
		return false
	}
	ok := vAnd(a.N == b.N, vAnd(eqZInner(a.A, b.A), eqZInner(a.B, b.B)))
	for i := range a.L {
		ok = vAnd(ok, eqZInnerP(a.L[i], b.L[i]))
	}
	// same sharing
	if (a.A == a.B) != (b.A == b.B) {
		return false
	}
	for i := range a.L {
		if (a.L[i] == a.A) != (b.L[i] == b.A) {
			return false
		}
	}
	return ok
}

// H_C11_reuse_refs: the probe contains shared pointers (back-references on the wire); earlier uses include
// messages holding the probe's own objects, empty containers only, failed encodes, and decodes of the same
// classes from differently ordered definitions.
func H_C11_reuse_refs() {
	in := &ZInner{N: vInt32("n"), S: "sh"}
	probe := &ZPair{N: 3, A: in, B: in, L: []*ZInner{in, {N: 4, S: "o"}, in}}
	tm, nm := vExtractAll(probe, &ZTriple{})
	s := NewSerializer(tm, nm)
	e := NewEncoder(nil, nm)
	d := NewDecoder(nil, tm)
	h := 1
	if vTier() == 1 {
		h = 2
	}
	for i := 0; i < h; i++ {
		zHistoryOpOn(vChoice("op", 12), s, e, d, probe)
	}
	vFreeze(probe, "probe-value")
	vFreeze(nm, "name-map")
	vFreeze(tm, "type-map")
	fresh, ferr := NewEncoder(nil, nm).Encode(probe)
	vAssert("fresh-ok", ferr == nil)
	b1, err1 := s.ToBytes(probe)
	b2, err2 := e.Encode(probe)
	vAssert("serializer-encode-same", err1 == nil && eqBytes(b1, fresh))
	vAssert("encoder-encode-same", err2 == nil && eqBytes(b2, fresh))
	o0, e0 := NewDecoder(nil, tm).Decode(fresh)
	o1, e1 := s.ToObject(fresh)
	o2, e2 := d.Decode(fresh)
	g0, ok0 := o0.(*ZPair)
	vAssert("fresh-decode-ok", e0 == nil && ok0 && eqZPair(probe, g0))
	g1, ok1 := o1.(*ZPair)
	g2, ok2 := o2.(*ZPair)
	vAssert("serializer-decode-same", e1 == nil && ok1 && eqZPair(probe, g1))
	vAssert("decoder-decode-same", e2 == nil && ok2 && eqZPair(probe, g2))
}

// H_C11_reuse: after any short history of earlier uses, a one-shot call gives exactly the bytes / value / error
// a fresh instance gives; the probe value, the probe bytes and the (complete) maps are never written to.
func H_C11_reuse() {
	probe := &ZOuter{A: vInt32("a"), In: ZInner{N: 7, S: "in"}, P: &ZInner{N: 5, S: "p"}, Z: 11}
	tm, nm := vExtractAll(probe, &ZTriple{})
	s := NewSerializer(tm, nm)
	e := NewEncoder(nil, nm)
	d := NewDecoder(nil, tm)
	h := 1
	if vTier() == 1 {
		h = 2
	}
	for i := 0; i < h; i++ {
		zHistoryOp(vChoice("op", 7), s, e, d)
	}
	vFreeze(probe, "probe-value")
	vFreeze(nm, "name-map")
	vFreeze(tm, "type-map")
	fresh, ferr := NewEncoder(nil, nm).Encode(probe)
	vAssert("fresh-ok", ferr == nil)
	b1, err1 := s.ToBytes(probe)
	b2, err2 := e.Encode(probe)
	vAssert("serializer-encode-same", err1 == nil && eqBytes(b1, fresh))
	vAssert("encoder-encode-same", err2 == nil && eqBytes(b2, fresh))
	vFreeze(fresh, "probe-bytes")
	o0, e0 := NewDecoder(nil, tm).Decode(fresh)
	o1, e1 := s.ToObject(fresh)
	o2, e2 := d.Decode(fresh)
	vAssert("fresh-decode-ok", e0 == nil)
	g0, ok0 := o0.(*ZOuter)
	g1, ok1 := o1.(*ZOuter)
	g2, ok2 := o2.(*ZOuter)
	vAssert("serializer-decode-same", e1 == nil && ok0 && ok1 && eqZOuter(g0, g1))
	vAssert("decoder-decode-same", e2 == nil && ok2 && eqZOuter(g0, g2))
}

// H_C11_reuse_errors: a probe that fails on a fresh instance fails the same way on a used one, and a garbage
// decode gives the same outcome.
func H_C11_reuse_errors() {
	tm, nm := vExtract(&ZInner{})
	s := NewSerializer(tm, nm)
	d := NewDecoder(nil, tm)
	zHistoryOp(vChoice("op", 7), s, NewEncoder(nil, nm), d)
	// damaged messages: a fixed menu of shapes with one arbitrary octet in value position
	pb := vUint8("probe")
	vAssume(pb >= 0x80) // compact ints and longs
	var g []byte
	switch vChoice("shape", 6) {
	case 0:
		g = []byte{pb}
	case 1:
		g = []byte{'C', 0x06, 'Z', 'I', 'n', 'n', 'e', 'r', 0x92, 0x01, 'n', 0x01, 's', 0x60, pb} // truncated instance
	case 2:
		g = []byte{0x57, pb} // unterminated list
	case 3:
		g = []byte{'O', pb} // instance of an undefined class
	case 4:
		g = []byte{0x51, pb} // dangling back-reference
	case 5:
		g = []byte{'H', pb, pb} // unterminated map
	}
	o0, e0 := NewDecoder(nil, tm).Decode(g)
	o1, e1 := s.ToObject(g)
	o2, e2 := d.Decode(g)
	vAssert("same-error-ness", (e0 == nil) == (e1 == nil) && (e0 == nil) == (e2 == nil))
	if e0 == nil {
		vAssert("same-kind", reflect.TypeOf(o0) == reflect.TypeOf(o1) && reflect.TypeOf(o0) == reflect.TypeOf(o2))
	}
}

// H_C11_register: types and names registered one by one (RegisterType / RegisterVal / RegisterTypeMap,
// RegisterNameType / RegisterNameMap) and Decoder.Reset / Encoder.Reset behave like maps given to the constructor.
func H_C11_register() {
	probe := &ZOuter{A: vInt32("a"), In: ZInner{N: 7, S: "in"}, P: &ZInner{N: 5, S: "p"}, Z: 11}
	tm, nm := vExtractAll(probe)
	fresh, ferr := NewEncoder(nil, nm).Encode(probe)
	vAssert("fresh-ok", ferr == nil)
	var e *Encoder
	var d *Decoder
	switch vChoice("how", 3) {
	case 0:
		e = NewEncoder(nil, nil)
		e.RegisterNameType("ZOuter", "ZOuter")
		e.RegisterNameType("ZInner", "ZInner")
		d = NewDecoder(nil, nil)
		d.RegisterType("ZOuter", reflect.TypeOf(ZOuter{}))
		d.RegisterVal("ZInner", ZInner{})
	case 1:
		e = NewEncoder(nil, map[string]string{"stale": "x"})
		e.RegisterNameMap(nm)
		d = NewDecoder(nil, map[string]reflect.Type{"ZOuter": reflect.TypeOf(ZInner{})})
		d.RegisterTypeMap(tm)
	case 2:
		w := &vBufWriter{}
		e = NewEncoder(w, nm)
		e.WriteObject(probe.P)
		e.Reset(&vBufWriter{})
		d = NewDecoder(&vCountingReader{b: w.b}, tm)
		d.ReadObject()
		d.Reset(&vCountingReader{})
	}
	b, err := e.Encode(probe)
	vAssert("encode-same", err == nil && eqBytes(b, fresh))
	o, err := d.Decode(fresh)
	g, ok := o.(*ZOuter)
	vAssert("decode-same", err == nil && ok && eqZOuter(probe, g))
}

// H_C11_reset_state: every one-shot entry point starts with Reset. After any history, Reset must leave the
// instance in exactly the state a fresh instance has after Reset - every field, including ones added later -
// which makes "reused equals fresh" hold for histories of any length.
func H_C11_reset_state() {
	in := &ZInner{N: 4, S: "sh"}
	probe := &ZPair{N: 3, A: in, B: in, L: []*ZInner{in}}
	tm, nm := vExtractAll(probe, &ZTriple{})
	tm["[int32"] = reflect.TypeOf([]int32{})
	s := NewSerializer(tm, nm)
	e := NewEncoder(nil, nm)
	d := NewDecoder(nil, tm)
	h := 1 + vChoice("len", 2)
	for i := 0; i < h; i++ {
		zHistoryOpOn(vChoice("op", 12), s, e, d, probe)
	}
	w := &vBufWriter{}
	r := &vCountingReader{}
	e.Reset(w)
	fe := NewEncoder(nil, nm)
	fe.Reset(w)
	vAssert("encoder-reset-is-fresh", vSameState(e, fe))
	d.Reset(r)
	fd := NewDecoder(nil, tm)
	fd.Reset(r)
	vAssert("decoder-reset-is-fresh", vSameState(d, fd))
	gs := s.(*goHessian)
	gs.encoder.Reset(w)
	gs.decoder.Reset(r)
	vAssert("serializer-reset-is-fresh", vAnd(vSameState(gs.encoder, fe), vSameState(gs.decoder, fd)))
}
