//go:build verif

package hessian

type ZBadChan struct {
	A int32
	C chan int
	B int32
}

type ZBadFunc struct {
	A int32
	F func()
}

type ZBadCplx struct {
	X complex128
	A int32
}

type ZBadPtr struct {
	A    int32
	Done *chan int
}

type ZV1 struct {
	A int32
}

type ZV2 struct {
	A int32
	C interface{}
}

type ZHolder struct {
	Name  string
	Items []interface{}
	Attrs map[string]interface{}
}

func vBadValue(kind int) interface{} {
	switch kind {
	case 0:
		return make(chan int)
	case 1:
		return func() {}
	default:
		return complex(1, 2)
	}
}

// H_C13_unsupported: one sub-value at every position is of a kind the format cannot represent; the encode
// call must fail (it must not panic, drop the element, or emit a stream that says something else).
func H_C13_unsupported() {
	kind := vChoice("kind", 3)
	bad := vBadValue(kind)
	x := vInt32("x")
	var v interface{}
	pos := vChoice("position", 18)
	sharedName := false
	switch pos {
	case 12: // two Go types registered under one remote class name; the second one holds the bad value
		v = []interface{}{&ZV1{A: x}, &ZV2{A: 2, C: bad}}
		sharedName = true
	case 13: // the same, other order
		v = []interface{}{&ZV2{A: x, C: int32(1)}, &ZV1{A: 3}, &ZV2{A: 2, C: bad}}
		sharedName = true
	case 15: // a pointer to the nil value of an unsupported kind
		switch kind {
		case 0:
			v = []interface{}{x, new(chan int), int32(3)}
		case 1:
			v = []interface{}{x, new(func()), int32(3)}
		default:
			v = []interface{}{x, new(complex128), int32(3)}
		}
	case 16:
		v = &ZBadPtr{A: x, Done: new(chan int)}
	case 17:
		var nilChan chan int
		v = map[string]interface{}{"k": nilChan, "j": x}
	case 14: // anonymous structs all share the empty class name
		v = struct{ In interface{} }{In: struct{ C interface{} }{C: bad}}
	}
	switch pos {
	case 0:
		v = bad
	case 1:
		switch kind {
		case 0:
			v = &ZBadChan{A: x, C: make(chan int), B: 2}
		case 1:
			v = &ZBadFunc{A: x, F: func() {}}
		default:
			v = &ZBadCplx{X: complex(1, 2), A: x}
		}
	case 2:
		v = []interface{}{x, bad, int32(3)}
	case 3:
		v = []interface{}{bad}
	case 4:
		v = []interface{}{x, int32(2), bad}
	case 5:
		v = map[string]interface{}{"k": bad}
	case 6:
		if kind == 1 {
			bad = make(chan int) // a func cannot be a Go map key at all
		}
		v = map[interface{}]interface{}{bad: x}
	case 7:
		v = &ZHolder{Name: "h", Items: []interface{}{x, bad}}
	case 8:
		v = &ZHolder{Name: "h", Attrs: map[string]interface{}{"a": bad}}
	case 9:
		v = &ZHolder{Name: "h", Items: []interface{}{[]interface{}{x, []interface{}{bad}}}}
	case 10:
		v = []interface{}{&ZHolder{Name: "n", Items: []interface{}{bad}}, x}
	case 11:
		v = map[string]interface{}{"outer": map[string]interface{}{"inner": []interface{}{bad}}}
	}
	_, nameMap := vExtract(v)
	if sharedName {
		nameMap["ZV1"] = "remote.V"
		nameMap["ZV2"] = "remote.V"
	}
	bs, err := ToBytes(v, nameMap)
	if err == nil {
		// success is only acceptable for a well-formed stream; for these values nothing well-formed denotes them
		_, n, p := refParse(bs)
		vAssert("well-formed-if-success", p.err == "" && n == len(bs))
	}
	vAssert("fail-stop", err != nil)
	// the same holds for every further attempt on an encoder / serializer that has already refused the value
	e := NewEncoder(nil, nameMap)
	s := NewSerializer(nil, nameMap)
	for i := 0; i < 2; i++ {
		_, err1 := e.Encode(v)
		_, err2 := s.ToBytes(v)
		vAssert("fail-stop-again", err1 != nil && err2 != nil)
	}
}

// H_C13_good_neighbours: the same shapes with a supported value in place of the bad one still encode.
func H_C13_good_neighbours() {
	x := vInt32("x")
	var v interface{}
	switch vChoice("position", 4) {
	case 0:
		v = []interface{}{x, "s", int32(3)}
	case 1:
		v = map[string]interface{}{"k": x}
	case 2:
		v = &ZHolder{Name: "h", Items: []interface{}{x, "y"}, Attrs: map[string]interface{}{"a": x}}
	case 3:
		v = []interface{}{[]interface{}{x}}
	}
	_, nameMap := vExtract(v)
	bs, err := ToBytes(v, nameMap)
	vAssert("encodes", err == nil)
	_, n, p := refParse(bs)
	vAssert("well-formed", p.err == "" && n == len(bs))
}
