//go:build verif

package hessian

import "reflect"

type ZMapThenLists struct {
	M map[string]string
	A []string
	B []string
}

// H_C03_map_type_slot: the type name of a typed map takes a slot in the stream's type table like a list's, also
// when the map is read into a struct field: a later list type given by back-reference counts it.
func H_C03_map_type_slot() {
	tm, _ := vExtractAll(&ZMapThenLists{})
	tm["[string"] = reflect.TypeOf([]string{})
	s := string([]rune{vScalar("s")})
	body := refCat([]byte{'M'}, refStr("any.Map"), refStr("k"), refStr("v"), []byte{'Z'},
		[]byte{'V'}, refStr("[string"), refInt(1), refStr("a"),
		[]byte{'V'}, refInt(1), refInt(1), refStr1(s)) // type #1 is "[string": #0 is the map's
	var in []byte
	if vChoice("where", 2) == 0 {
		in = refCat(refClassDef("ZMapThenLists", []string{"m", "a", "b"}), []byte{0x60}, body)
		out, err := ToObject(in, tm)
		vAssert("decode-noerr", err == nil)
		g, ok := out.(*ZMapThenLists)
		vAssert("fields", ok && g != nil && len(g.M) == 1 && g.M["k"] == "v" && len(g.A) == 1 && g.A[0] == "a" && len(g.B) == 1 && g.B[0] == s)
		return
	}
	tm["any.Map"] = reflect.TypeOf(map[string]string{})
	in = refCat([]byte{0x57}, body, []byte{'Z'})
	out, err := ToObject(in, tm)
	vAssert("decode-noerr", err == nil)
	l, ok := out.([]interface{})
	vAssert("list", ok && len(l) == 3)
	b, okb := l[2].([]string)
	vAssert("third", okb && len(b) == 1 && b[0] == s)
}

// refStr1: the compact encoding of a string of exactly one code point (any UTF-8 width)
func refStr1(s string) []byte { return append([]byte{0x01}, []byte(s)...) }

type ZShadow struct {
	name string
	Name string
	N    int32
}

// H_C05_unexported_shadow: a Go field that is not exported is no counterpart of a wire field: the exported field
// of that name (first letter case-insensitively) is.
func H_C05_unexported_shadow() {
	tm, _ := vExtractAll(&ZShadow{})
	s := string([]rune{vScalar("s")})
	in := refCat(refClassDef("ZShadow", []string{"name", "n"}), []byte{0x60}, refStr1(s), refInt(5))
	out, err := ToObject(in, tm)
	vAssert("decode-noerr", err == nil)
	g, ok := out.(*ZShadow)
	vAssert("exported-field-bound", ok && g != nil && g.Name == s && g.name == "" && g.N == 5)
}

type ZMapProbe struct {
	M map[string]int32
	L []int32
}

// H_C11_reuse_maps: the probe holds unnamed maps (on their own and as a field); earlier uses include the encoding
// of a value whose type has no name at all (an anonymous struct). The reference is a fresh encoder over a private
// copy of the name map taken before the history.
func H_C11_reuse_maps() {
	x := vInt32("x")
	tm, nm := vExtractAll(&ZMapProbe{}, &ZOuter{P: &ZInner{}}, &ZTriple{}, &ZPair{})
	vMapOrderFixed(true)
	pristine := map[string]string{}
	for k, n := range nm {
		pristine[k] = n
	}
	vMapOrderFixed(false)
	s := NewSerializer(tm, nm)
	e := NewEncoder(nil, nm)
	d := NewDecoder(nil, tm)
	op := vChoice("op", 14)
	switch op {
	case 12:
		e.Encode(struct{ A int32 }{1})
		s.ToBytes(struct{ A int32 }{1})
	case 13:
		e.Encode([]interface{}{struct{ B string }{"b"}, map[string]int32{"q": 1}})
		s.ToBytes(&struct{ C []int32 }{[]int32{1}})
	default:
		zHistoryOp(op, s, e, d)
	}
	var probe interface{}
	switch vChoice("probe", 3) {
	case 0:
		probe = map[string]int32{"k": x}
	case 1:
		probe = &ZMapProbe{M: map[string]int32{"k": x}, L: []int32{1}}
	case 2:
		probe = []interface{}{map[string]int32{"k": x}, []int32{2}}
	}
	fresh, ferr := NewEncoder(nil, pristine).Encode(probe)
	vAssert("fresh-ok", ferr == nil)
	b1, err1 := s.ToBytes(probe)
	b2, err2 := e.Encode(probe)
	vAssert("serializer-encode-same", err1 == nil && eqBytes(b1, fresh))
	vAssert("encoder-encode-same", err2 == nil && eqBytes(b2, fresh))
}

// H_C11_unregistered_types: an encoder / serializer whose name map is nil or lacks the types it meets registers
// them as it goes. A value of such a type encoded a second time (or after other values) gives exactly the bytes a
// fresh instance over an equally incomplete map gives.
func H_C11_unregistered_types() {
	x := vInt32("x")
	var mk func() map[string]string
	switch vChoice("map", 3) {
	case 0:
		mk = func() map[string]string { return nil }
	case 1:
		mk = func() map[string]string { return map[string]string{} }
	case 2:
		mk = func() map[string]string { return map[string]string{"ZOuter": "ZOuter"} }
	}
	e := NewEncoder(nil, mk())
	s := NewSerializer(nil, mk())
	switch vChoice("history", 4) {
	case 0:
		e.Encode(&ZInner{N: 1, S: "h"})
		s.ToBytes(&ZInner{N: 1, S: "h"})
	case 1:
		e.Encode(&ZOuter{A: 1, P: &ZInner{N: 2}})
		s.ToBytes(&ZOuter{A: 1, P: &ZInner{N: 2}})
	case 2:
		e.Encode([]interface{}{&ZInner{N: 1}, &ZNamed{V: 2}, &ZInner{N: 3}})
		s.ToBytes([]interface{}{&ZInner{N: 1}, &ZNamed{V: 2}, &ZInner{N: 3}})
	case 3:
		e.Encode([]*ZInner{{N: 1}})
		s.ToBytes(map[string]*ZInner{"k": {N: 1}})
	}
	var probe interface{}
	switch vChoice("probe", 3) {
	case 0:
		probe = &ZInner{N: x, S: "p"}
	case 1:
		probe = &ZOuter{A: x, In: ZInner{N: 1, S: "i"}, P: &ZInner{N: 2, S: "q"}, Z: 3}
	case 2:
		probe = []interface{}{&ZInner{N: x, S: "p"}, &ZNamed{V: 4}, &ZInner{N: 5, S: "r"}}
	}
	fresh, ferr := NewEncoder(nil, mk()).Encode(probe)
	vAssert("fresh-ok", ferr == nil)
	b1, err1 := s.ToBytes(probe)
	b2, err2 := e.Encode(probe)
	vAssert("serializer-encode-same", err1 == nil && eqBytes(b1, fresh))
	vAssert("encoder-encode-same", err2 == nil && eqBytes(b2, fresh))
	_, n, p := refParse(fresh)
	vAssert("well-formed", p.err == "" && n == len(fresh))
}

type ZBase struct {
	Id int32
}

type ZItem struct {
	ZBase
	Name string
	Qty  int32
}

// H_C05_promoted_names: the class definition lists a name that the Go struct has only through an embedded struct
// (a peer that flattens inheritance sends that). Whether such a field counts as a counterpart is not fixed by the
// property; what is: decoding succeeds, the value lands in that field or nowhere, and the fields after it are
// undisturbed.
func H_C05_promoted_names() {
	tm, _ := vExtractAll(&ZItem{})
	x := vInt32("x")
	var def []string
	var vals []byte
	switch vChoice("shape", 3) {
	case 0:
		def, vals = []string{"id", "name", "qty"}, refCat(refInt(x), refStr("n"), refInt(7))
	case 1:
		def, vals = []string{"name", "id", "qty"}, refCat(refStr("n"), refInt(x), refInt(7))
	case 2: // the embedded struct as the nested object this library's own encoder sends, and the flat name too
		def = []string{"zBase", "name", "qty", "id"}
		vals = refCat(refClassDef("ZBase", []string{"id"}), []byte{0x61}, refInt(5), refStr("n"), refInt(7), refInt(x))
	}
	in := refCat(refClassDef("ZItem", def), []byte{0x60}, vals)
	out, err := ToObject(in, tm)
	vAssert("decode-noerr", err == nil)
	g, ok := out.(*ZItem)
	vAssert("later-fields-undisturbed", ok && g != nil && g.Name == "n" && g.Qty == 7)
	vAssert("value-lands-there-or-nowhere", g.Id == x || g.Id == 0 || g.Id == 5)
}
