//go:build verif

package hessian

// Harness vocabulary. The symbolic executor (gosym) intercepts every v* function by name and never runs
// these bodies; they exist so that the same harness runs natively when a counterexample is replayed.

import (
	"encoding/json"
	"fmt"
	"math"
	"os"
	"reflect"
	"runtime"
	"sort"
	"strings"
)

type vInput struct {
	Name string   `json:"name"`
	Kind string   `json:"kind"`
	Val  []uint64 `json:"val"`
}

type vReplayFile struct {
	Property string   `json:"property"`
	Harness  string   `json:"harness"`
	Assert   string   `json:"assert"`
	Tier     string   `json:"tier"`
	Inputs   []vInput `json:"inputs"`
}

type vViolated struct{ id string }
type vAssumeFailed struct{}

var (
	vHarnesses = map[string]func(){}
	vReplay    *vReplayFile
	vCounts    = map[string]int{}
)

func vLoadReplay(path string) error {
	b, err := os.ReadFile(path)
	if err != nil {
		return err
	}
	vReplay = &vReplayFile{}
	vCounts = map[string]int{}
	return json.Unmarshal(b, vReplay)
}

func vNext(name string) []uint64 {
	k := vCounts[name]
	vCounts[name] = k + 1
	full := name + "#" + itoa(k)
	if vReplay != nil {
		for _, in := range vReplay.Inputs {
			if in.Name == full {
				return in.Val
			}
		}
	}
	return nil
}

func itoa(i int) string {
	if i == 0 {
		return "0"
	}
	s := ""
	for i > 0 {
		s = string(rune('0'+i%10)) + s
		i /= 10
	}
	return s
}

func vOne(name string) uint64 {
	v := vNext(name)
	if len(v) == 0 {
		return 0
	}
	return v[0]
}

func vBool(name string) bool       { return vOne(name) != 0 }
func vInt8(name string) int8       { return int8(vOne(name)) }
func vUint8(name string) uint8     { return uint8(vOne(name)) }
func vInt16(name string) int16     { return int16(vOne(name)) }
func vUint16(name string) uint16   { return uint16(vOne(name)) }
func vInt32(name string) int32     { return int32(vOne(name)) }
func vUint32(name string) uint32   { return uint32(vOne(name)) }
func vRune(name string) rune       { return rune(vOne(name)) }
func vInt64(name string) int64     { return int64(vOne(name)) }
func vUint64(name string) uint64   { return vOne(name) }
func vInt(name string) int         { return int(vOne(name)) }
func vUint(name string) uint       { return uint(vOne(name)) }
func vFloat64(name string) float64 { return math.Float64frombits(vOne(name)) }
func vFloat32(name string) float32 { return math.Float32frombits(uint32(vOne(name))) }

func vBytes(name string, n int) []byte {
	v := vNext(name)
	b := make([]byte, n)
	for i := range b {
		if i < len(v) {
			b[i] = byte(v[i])
		}
	}
	return b
}

func vString(name string, n int) string { return string(vBytes(name, n)) }

func vChoice(name string, n int) int {
	c := int(vOne(name))
	if c >= n {
		c = 0
	}
	return c
}

func vAssume(c bool) {
	if !c {
		panic(vAssumeFailed{})
	}
}

func vAssert(id string, c bool) {
	if !c {
		panic(vViolated{id})
	}
}

// vKnown marks the input region of a recorded finding. Natively it carves out nothing.
func vKnown(id string, inRegion bool) bool { return false }

// vAllocBound: the engine checks every allocation whose size comes from the input against n elements. Natively
// the allocation volume is measured instead, so that a reported over-allocation can be confirmed by replay:
// vAllocCheck fails when more than 64 octets per allowed element (plus 4 MiB) were allocated since vAllocBound.
var vAllocLimit int
var vAllocBase uint64

func vAllocBound(n int) {
	vAllocLimit = n
	var ms runtime.MemStats
	runtime.ReadMemStats(&ms)
	vAllocBase = ms.TotalAlloc
}

func vAllocCheck() {
	if vAllocLimit <= 0 {
		return
	}
	var ms runtime.MemStats
	runtime.ReadMemStats(&ms)
	if ms.TotalAlloc-vAllocBase > uint64(vAllocLimit)*64+4<<20 {
		panic(vViolated{"alloc-bound"})
	}
}
func vSteps() int      { return 0 }
func vStepLimit(n int) {}
func vSymbolic() bool  { return false }

// vArith(1): ask the engine to render this harness's path condition as wrapped integer arithmetic first.
func vArith(mode int) {}
func vTrace()         {}

// vFreeze: the engine marks everything reachable from x read-only and reports any store. Natively a deep
// fingerprint is taken and compared when the harness ends, so that a reported store can be confirmed by replay.
type vFrozenRec struct {
	label string
	x     interface{}
	fp    string
}

var vFrozenList []vFrozenRec

func vFreeze(x interface{}, label string) {
	vFrozenList = append(vFrozenList, vFrozenRec{label, x, vFingerprint(x)})
}

func vFreezeGlobals(label string) {
	vFreeze(_buildInTypeNameMap, label)
	vFreeze(&StringChunkSizeBytes, label)
	vFreeze(&_binaryChunkSizeBytes, label)
	vFreeze(&strChunkSize, label)
	vFreeze(&_binChunkSize, label)
}

// vFrozenChanged returns the label of the first frozen root whose contents changed ("" if none).
func vFrozenChanged() string {
	for _, f := range vFrozenList {
		if vFingerprint(f.x) != f.fp {
			return f.label
		}
	}
	return ""
}

func vFingerprint(x interface{}) string {
	var sb strings.Builder
	vPrintDeep(&sb, reflect.ValueOf(x), map[uintptr]bool{}, 0)
	return sb.String()
}

func vPrintDeep(sb *strings.Builder, v reflect.Value, seen map[uintptr]bool, depth int) {
	if !v.IsValid() || depth > 40 {
		sb.WriteString("<nil>")
		return
	}
	switch v.Kind() {
	case reflect.Ptr:
		if v.IsNil() {
			sb.WriteString("nil")
			return
		}
		if seen[v.Pointer()] {
			sb.WriteString("<seen>")
			return
		}
		seen[v.Pointer()] = true
		sb.WriteString("&")
		vPrintDeep(sb, v.Elem(), seen, depth+1)
	case reflect.Interface:
		if v.IsNil() {
			sb.WriteString("nil")
			return
		}
		vPrintDeep(sb, v.Elem(), seen, depth+1)
	case reflect.Struct:
		sb.WriteString(v.Type().String() + "{")
		for i := 0; i < v.NumField(); i++ {
			vPrintDeep(sb, v.Field(i), seen, depth+1)
			sb.WriteString(",")
		}
		sb.WriteString("}")
	case reflect.Slice, reflect.Array:
		if v.Kind() == reflect.Slice && v.IsNil() {
			sb.WriteString("nilslice")
			return
		}
		sb.WriteString("[")
		for i := 0; i < v.Len(); i++ {
			vPrintDeep(sb, v.Index(i), seen, depth+1)
			sb.WriteString(",")
		}
		sb.WriteString("]")
	case reflect.Map:
		if v.IsNil() {
			sb.WriteString("nilmap")
			return
		}
		keys := v.MapKeys()
		strs := make([]string, 0, len(keys))
		for _, k := range keys {
			var kb, vb strings.Builder
			vPrintDeep(&kb, k, seen, depth+1)
			vPrintDeep(&vb, v.MapIndex(k), seen, depth+1)
			strs = append(strs, kb.String()+":"+vb.String())
		}
		sort.Strings(strs)
		sb.WriteString("map[" + strings.Join(strs, ",") + "]")
	case reflect.Chan, reflect.Func, reflect.UnsafePointer:
		sb.WriteString(v.Type().String())
	default:
		sb.WriteString(fmt.Sprintf("%v", vPlain(v)))
	}
}

func vPlain(v reflect.Value) interface{} {
	switch v.Kind() {
	case reflect.Bool:
		return v.Bool()
	case reflect.Int, reflect.Int8, reflect.Int16, reflect.Int32, reflect.Int64:
		return v.Int()
	case reflect.Uint, reflect.Uint8, reflect.Uint16, reflect.Uint32, reflect.Uint64, reflect.Uintptr:
		return v.Uint()
	case reflect.Float32, reflect.Float64:
		return math.Float64bits(v.Float())
	case reflect.String:
		return v.String()
	}
	return v.Type().String()
}

// vTier: 0 quick, 1 thorough.
func vTier() int {
	if vReplay != nil && vReplay.Tier == "thorough" {
		return 1
	}
	return 0
}

// Non-branching boolean connectives: the engine builds one term instead of forking.
func vAnd(a, b bool) bool { return a && b }
func vOr(a, b bool) bool  { return a || b }
func vNot(a bool) bool    { return !a }
func vIte(c bool, a, b int) int {
	if c {
		return a
	}
	return b
}

// vMapOrderFixed(true): the engine stops exploring map iteration orders (insertion order is used) until it is
// switched back; used around code whose order-dependence is another property's subject.
func vMapOrderFixed(fixed bool) {}

// vExtract: ExtractTypeNameMap with map iteration order held fixed (its order-independence is C16's subject).
func vExtract(v interface{}) (map[string]reflect.Type, map[string]string) {
	vMapOrderFixed(true)
	t, n := ExtractTypeNameMap(v)
	vMapOrderFixed(false)
	return t, n
}

// vExtractAll: union of the maps extracted from several witnesses (iteration order held fixed).
func vExtractAll(vs ...interface{}) (map[string]reflect.Type, map[string]string) {
	vMapOrderFixed(true)
	tm, nm := map[string]reflect.Type{}, map[string]string{}
	for _, v := range vs {
		t, n := ExtractTypeNameMap(v)
		for k, x := range t {
			tm[k] = x
		}
		for k, x := range n {
			nm[k] = x
		}
	}
	vMapOrderFixed(false)
	return tm, nm
}

// vIsOpen: is this finding listed as open in known_findings.jsonl? (natively: false, nothing is carved out)
func vIsOpen(id string) bool { return false }

// vRecord: translator self-test. Natively prints the bytes; the engine collects them for comparison.
func vRecord(name string, b []byte) {
	fmt.Printf("REPLAY-RECORD %s %x\n", name, b)
}

// vSameState: deep equality of two object graphs including unexported fields (natively reflect.DeepEqual).
func vSameState(a, b interface{}) bool { return reflect.DeepEqual(a, b) }
