//go:build verif

package hessian

import "reflect"

// H_C03_classdef_before_field_values: value ::= class-def value - a definition may stand in front of any value,
// also in front of the value of a struct field of list, map, string, number, date or struct type (a writer that
// emits its definitions early does that). The instance decodes to the same Go value as the encoder's rendering.
func H_C03_classdef_before_field_values() {
	x := vInt32("x")
	v := &ZDefMix{S: "s", N: x, L: []*ZInner{{N: 1, S: "a"}}, M: map[string]int32{"k": 2}, In: ZInner{N: 3, S: "i"}, Z: 4, F: 2.5, B: true}
	tm, nm := vExtract(v)
	own, err := ToBytes(v, nm)
	vAssert("own-encodes", err == nil)
	want, err := ToObject(own, tm)
	w, okw := want.(*ZDefMix)
	vAssert("own-decodes", err == nil && okw && w != nil)
	// a hand-written rendering: definitions #0 ZDefMix and #1 ZInner first, then the instance; an unrelated
	// definition (#2) stands directly in front of the value of one solver-chosen field
	fields := []string{"s", "n", "l", "m", "in", "z", "f", "b"}
	vals := [][]byte{
		refStr("s"),
		refInt(x),
		refCat([]byte{0x71}, refStr(nm["[]*hessian.ZInner"]), []byte{0x61}, refInt(1), refStr("a")),
		refCat([]byte{'H'}, refStr("k"), refInt(2), []byte{'Z'}),
		refCat([]byte{0x61}, refInt(3), refStr("i")),
		refLong(4),
		{0x44, 0x40, 0x04, 0, 0, 0, 0, 0, 0}, // 2.5
		{'T'},
	}
	at := vChoice("before", len(fields)+1) // == len(fields): nowhere (control)
	wire := refCat(refClassDef("ZDefMix", fields), refClassDef("ZInner", []string{"n", "s"}), []byte{0x60})
	for i := range fields {
		if i == at {
			// two definitions in a row (or one): definitions may be repeated in front of a value
			wire = refCat(wire, refClassDef("ZTriple", []string{"a", "b", "c"}))
			if vChoice("second-def", 2) == 1 {
				wire = refCat(wire, refClassDef("ZDummy", nil))
			}
		}
		wire = refCat(wire, vals[i])
	}
	got, err := ToObject(wire, tm)
	vAssert("alt-decodes", err == nil)
	g, ok := got.(*ZDefMix)
	vAssert("alt-type", ok && g != nil)
	vAssert("alt-same", g.S == w.S && g.N == w.N && len(g.L) == 1 && g.L[0] != nil && g.L[0].N == 1 && g.L[0].S == "a" &&
		len(g.M) == 1 && g.M["k"] == 2 && g.In.N == 3 && g.In.S == "i" && g.Z == 4 && g.F == 2.5 && g.B)
}

type ZDefMix struct {
	S  string
	N  int32
	L  []*ZInner
	M  map[string]int32
	In ZInner
	Z  int64
	F  float64
	B  bool
}

// H_C03_variable_typed_struct_lists: a variable-length typed list whose registered Go type holds structs by value
// ([]T) or by pointer ([]*T), with a null element: the same Go value as the fixed-length rendering gives.
func H_C03_variable_typed_struct_lists() {
	x := vInt32("x")
	byValue := vChoice("by-value", 2) == 1
	tm := map[string]reflect.Type{"ZInner": reflect.TypeOf(ZInner{})}
	if byValue {
		tm["[ZInner"] = reflect.TypeOf([]ZInner{})
	} else {
		tm["[ZInner"] = reflect.TypeOf([]*ZInner{})
	}
	def := refClassDef("ZInner", []string{"n", "s"})
	e1 := refCat([]byte{0x60}, refInt(x), refStr("a"))
	e2 := refCat([]byte{0x60}, refInt(2), refStr("b"))
	var wire []byte
	switch vChoice("form", 3) {
	case 0:
		wire = refCat([]byte{0x55}, refStr("[ZInner"), def, e1, e2, []byte{'Z'})
	case 1:
		wire = refCat([]byte{'V'}, refStr("[ZInner"), refInt(2), def, e1, e2)
	case 2:
		wire = refCat([]byte{0x72}, refStr("[ZInner"), def, e1, e2)
	}
	got, err := ToObject(wire, tm)
	vAssert("decodes", err == nil)
	if byValue {
		g, ok := got.([]ZInner)
		vAssert("by-value-elements", ok && len(g) == 2 && g[0].N == x && g[0].S == "a" && g[1].N == 2 && g[1].S == "b")
	} else {
		g, ok := got.([]*ZInner)
		vAssert("pointer-elements", ok && len(g) == 2 && g[0] != nil && g[0].N == x && g[1] != nil && g[1].N == 2)
	}
}
