//go:build verif

package hessian

import "reflect"

type ZPtrNamed struct{ V int32 }

func (*ZPtrNamed) HessianCodecName() string { return "com.example.PtrNamed" }

type ZPtrNamedHolder struct {
	P *ZPtrNamed
	L []*ZPtrNamed
}

// H_C16_typemapof_suffices: the type map obtained from a *type* decodes every value of that type: it holds the
// slice types and custom class names as well as the struct types.
func H_C16_typemapof_suffices() {
	x := vInt32("x")
	vStepLimit(400000)
	switch vChoice("type", 6) {
	case 0:
		tm := TypeMapOf(reflect.TypeOf(&ZLists{}))
		v := &ZLists{Ss: []string{"a"}, Is: []int32{x}, Ps: []*ZInner{{N: x, S: "p"}, nil}}
		_, nm := vExtract(v)
		bs, err := ToBytes(v, nm)
		vAssert("encode-noerr", err == nil)
		out, err := ToObject(bs, tm)
		vAssert("decode-noerr", err == nil)
		g, ok := out.(*ZLists)
		vAssert("equal", ok && g != nil && len(g.Ss) == 1 && len(g.Is) == 1 && g.Is[0] == x && len(g.Ps) == 2 && g.Ps[0] != nil && g.Ps[0].N == x && g.Ps[1] == nil)
	case 1:
		tm := TypeMapOf(reflect.TypeOf(ZTree{}))
		v := &ZTree{V: x, Kids: []*ZTree{{V: 2, Named: ZNamed{V: 4}}}, Named: ZNamed{V: 3}}
		_, nm := vExtract(v)
		bs, err := ToBytes(v, nm)
		vAssert("encode-noerr", err == nil)
		out, err := ToObject(bs, tm)
		vAssert("decode-noerr", err == nil)
		g, ok := out.(*ZTree)
		vAssert("equal", ok && g != nil && g.V == x && g.Named.V == 3 && len(g.Kids) == 1 && g.Kids[0].Named.V == 4)
	case 2:
		tm := TypeMapOf(reflect.TypeOf(&ZCells{}))
		v := &ZCells{Cells: [][]*ZInner{{{N: x, S: "a"}, nil}, {}}, Names: [][]string{{"n"}}}
		_, nm := vExtract(v)
		bs, err := ToBytes(v, nm)
		vAssert("encode-noerr", err == nil)
		out, err := ToObject(bs, tm)
		vAssert("decode-noerr", err == nil)
		g, ok := out.(*ZCells)
		vAssert("equal", ok && g != nil && len(g.Cells) == 2 && len(g.Cells[0]) == 2 && g.Cells[0][0] != nil && g.Cells[0][0].N == x && len(g.Names) == 1)
	case 3:
		tm := TypeMapOf(reflect.TypeOf([]*ZInner{}))
		v := []*ZInner{{N: x, S: "a"}}
		_, nm := vExtract(v)
		bs, err := ToBytes(v, nm)
		vAssert("encode-noerr", err == nil)
		out, err := ToObject(bs, tm)
		vAssert("decode-noerr", err == nil)
		g, ok := out.([]*ZInner)
		vAssert("equal", ok && len(g) == 1 && g[0] != nil && g[0].N == x)
	case 5: // the same type met first where it is not addressable: by value at top level, as a map value, in an interface
		var w interface{}
		switch vChoice("witness", 4) {
		case 0:
			w = ZPtrNamed{V: 1}
		case 1:
			w = map[string]ZPtrNamed{"k": {V: 1}}
		case 2:
			w = []interface{}{ZPtrNamed{V: 1}}
		case 3:
			w = struct{ In interface{} }{In: ZPtrNamed{V: 1}}
		}
		tm, nm := vExtract(w)
		vStepLimit(0)
		vAssert("custom-name-in-name-map", nm["ZPtrNamed"] == "com.example.PtrNamed")
		vAssert("custom-name-in-type-map", tm["com.example.PtrNamed"] == reflect.TypeOf(ZPtrNamed{}))
		// maps from one value serve another value of the type
		bs, err := ToBytes(&ZPtrNamed{V: x}, nm)
		vAssert("encode-noerr", err == nil)
		out, err := ToObject(bs, tm)
		g, ok := out.(*ZPtrNamed)
		vAssert("suffices", err == nil && ok && g != nil && g.V == x)
	case 4: // a custom class name declared on the pointer receiver
		v := &ZPtrNamedHolder{P: &ZPtrNamed{V: x}, L: []*ZPtrNamed{{V: 2}}}
		tm, nm := vExtract(v)
		vStepLimit(0)
		vAssert("custom-name-in-name-map", nm["ZPtrNamed"] == "com.example.PtrNamed")
		vAssert("custom-name-in-type-map", tm["com.example.PtrNamed"] == reflect.TypeOf(ZPtrNamed{}))
		bs, err := ToBytes(v, nm)
		vAssert("encode-noerr", err == nil)
		av, n, ps := refParse(bs)
		vAssert("parses", ps.err == "" && n == len(bs))
		vAssert("sent-under-custom-name", av.Kind == 'O' && len(av.Items) == 2 && av.Items[0].Kind == 'O' && av.Items[0].Type == "com.example.PtrNamed")
		out, err := ToObject(bs, tm)
		vAssert("decode-noerr", err == nil)
		g, ok := out.(*ZPtrNamedHolder)
		vAssert("equal", ok && g != nil && g.P != nil && g.P.V == x && len(g.L) == 1 && g.L[0].V == 2)
		tm2 := TypeMapOf(reflect.TypeOf(v))
		vAssert("typemapof-custom-name", tm2["com.example.PtrNamed"] == reflect.TypeOf(ZPtrNamed{}))
	}
	vStepLimit(0)
}

type ZNamedTree struct {
	V    int32
	Kids []*ZNamedTree
	Next *ZNamedTree
	By   map[string]*ZNamedTree
}

func (ZNamedTree) HessianCodecName() string { return "com.example.NamedTree" }

// H_C16_custom_named_recursive: a self-referential type that declares its own class name: extraction from a zero,
// a populated and a cyclic value terminates, is closed, and suffices for another value of the type.
func H_C16_custom_named_recursive() {
	x := vInt32("x")
	var w *ZNamedTree
	switch vChoice("witness", 3) {
	case 0:
		w = &ZNamedTree{}
	case 1:
		w = &ZNamedTree{V: 1, Kids: []*ZNamedTree{{V: 2}}, By: map[string]*ZNamedTree{"a": {V: 3}}}
	case 2:
		w = &ZNamedTree{V: 1}
		w.Next = w
		w.Kids = []*ZNamedTree{w}
	}
	vStepLimit(300000)
	tm, nm := vExtract(w)
	tm2 := TypeMapOf(reflect.TypeOf(w))
	vStepLimit(0)
	vAssert("name", nm["ZNamedTree"] == "com.example.NamedTree")
	vAssert("type-by-wire-name", tm["com.example.NamedTree"] == reflect.TypeOf(ZNamedTree{}) && tm2["com.example.NamedTree"] == reflect.TypeOf(ZNamedTree{}))
	v := &ZNamedTree{V: x, Kids: []*ZNamedTree{{V: 5}, nil}, By: map[string]*ZNamedTree{"k": {V: 6}}}
	v.Next = v
	bs, err := ToBytes(v, nm)
	vAssert("suffices-encode", err == nil)
	for i, m := range []map[string]reflect.Type{tm, tm2} {
		out, err := ToObject(bs, m)
		vAssert("suffices-decode", err == nil)
		g, ok := out.(*ZNamedTree)
		vAssert("suffices-equal", ok && g != nil && g.V == x && g.Next == g && len(g.Kids) == 2 && g.Kids[0] != nil && g.Kids[0].V == 5 && g.Kids[1] == nil && len(g.By) == 1 && g.By["k"] != nil && g.By["k"].V == 6)
		_ = i
	}
}
