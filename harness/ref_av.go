//go:build verif

package hessian

import "time"

// Expected abstract values, written by hand from the property statement: a struct is an object whose class
// definition carries the registered class name and the Go field names with the first letter lower-cased, in
// declaration order; a typed slice carries its registered list type name and its true element count; lists,
// maps and objects are numbered in stream order and a repeated pointer is a back-reference to that number.

type avBuilder struct {
	nm   map[string]string
	next int
	seen map[interface{}]int
}

func newAVBuilder(nm map[string]string) *avBuilder {
	return &avBuilder{nm: nm, seen: map[interface{}]int{}}
}

func (b *avBuilder) ord() int { o := b.next; b.next++; return o }

func avInt(x int32) *AV      { return &AV{Kind: 'I', Int: int64(x), Ord: -1} }
func avLong(x int64) *AV     { return &AV{Kind: 'L', Int: x, Ord: -1} }
func avDouble(f float64) *AV { return &AV{Kind: 'D', F: f, Ord: -1} }
func avBool(x bool) *AV      { return &AV{Kind: 'T', Bool: x, Ord: -1} }
func avStr(s string) *AV     { return &AV{Kind: 'S', Str: s, Ord: -1} }
func avBin(x []byte) *AV     { return &AV{Kind: 'B', Bytes: x, Ord: -1} }
func avNull() *AV            { return &AV{Kind: 'N', Ord: -1} }
func avDate(t time.Time) *AV {
	if t.IsZero() {
		return avNull()
	}
	return &AV{Kind: 'd', Int: t.Unix()*1000 + int64(t.Nanosecond()/1000000), Ord: -1}
}

func (b *avBuilder) className(goName string) string {
	if n, ok := b.nm[goName]; ok {
		return n
	}
	return goName
}

func (b *avBuilder) obj(goName string, fields []string, items ...*AV) *AV {
	return &AV{Kind: 'O', Type: b.className(goName), Fields: fields, Items: items}
}

func (b *avBuilder) zInner(v *ZInner) *AV {
	o := b.ord()
	a := b.obj("ZInner", []string{"n", "s"}, avInt(v.N), avStr(v.S))
	a.Ord = o
	return a
}

// zInnerP: pointer field / element: nil is null, a pointer seen before is a back-reference.
func (b *avBuilder) zInnerP(v *ZInner) *AV {
	if v == nil {
		return avNull()
	}
	if o, ok := b.seen[v]; ok {
		return &AV{Kind: 'R', Ref: o, Ord: -1}
	}
	b.seen[v] = b.next
	return b.zInner(v)
}

func (b *avBuilder) zScalars(v *ZScalars) *AV {
	o := b.ord()
	a := b.obj("ZScalars", []string{"b", "i8", "i16", "i32", "i", "i64", "u8", "u16", "u32", "u", "u64", "f32", "f64", "s", "bs", "t"},
		avBool(v.B), avInt(int32(v.I8)), avInt(int32(v.I16)), avInt(v.I32), avInt(int32(v.I)), avLong(v.I64),
		avInt(int32(v.U8)), avInt(int32(v.U16)), avLong(int64(v.U32)), avLong(int64(v.U)), avLong(int64(v.U64)),
		avDouble(float64(v.F32)), avDouble(v.F64), avStr(v.S), avBin(v.Bs), avDate(v.T))
	a.Ord = o
	return a
}

func (b *avBuilder) zOuter(v *ZOuter) *AV {
	o := b.ord()
	in := b.zInner(&v.In)
	a := b.obj("ZOuter", []string{"a", "in", "p", "z"}, avInt(v.A), in, b.zInnerP(v.P), avLong(v.Z))
	a.Ord = o
	return a
}

func (b *avBuilder) list(goType string, n int) *AV {
	return &AV{Kind: 'V', Type: b.nm[goType], Ord: b.ord(), Items: make([]*AV, 0, n)}
}

func (b *avBuilder) zLists(v *ZLists) *AV {
	o := b.ord()
	ss := b.list("[]string", len(v.Ss))
	for _, s := range v.Ss {
		ss.Items = append(ss.Items, avStr(s))
	}
	is := b.list("[]int32", len(v.Is))
	for _, x := range v.Is {
		is.Items = append(is.Items, avInt(x))
	}
	ls := b.list("[]int64", len(v.Ls))
	for _, x := range v.Ls {
		ls.Items = append(ls.Items, avLong(x))
	}
	fs := b.list("[]float64", len(v.Fs))
	for _, x := range v.Fs {
		fs.Items = append(fs.Items, avDouble(x))
	}
	ps := b.list("[]*hessian.ZInner", len(v.Ps))
	for _, x := range v.Ps {
		ps.Items = append(ps.Items, b.zInnerP(x))
	}
	a := b.obj("ZLists", []string{"ss", "is", "ls", "fs", "ps"}, ss, is, ls, fs, ps)
	a.Ord = o
	return a
}

func strsEq(a, b []string) bool {
	if len(a) != len(b) {
		return false
	}
	for i := range a {
		if a[i] != b[i] {
			return false
		}
	}
	return true
}

// avEqual: does the parsed value got denote the expected value exp? The only normalisations accepted are
// those C01 documents: an empty string / empty or nil container may be sent as null.
func avEqual(exp, got *AV) bool {
	if got == nil {
		return false
	}
	if got.Kind == 'N' {
		switch exp.Kind {
		case 'N':
			return true
		case 'S':
			return exp.Str == ""
		case 'V', 'M':
			return len(exp.Items) == 0
		case 'B':
			return len(exp.Bytes) == 0
		}
		return false
	}
	if exp.Kind != got.Kind {
		return false
	}
	switch exp.Kind {
	case 'N':
		return true
	case 'T':
		return exp.Bool == got.Bool
	case 'I', 'L', 'd':
		return exp.Int == got.Int
	case 'D':
		return eqF64(exp.F, got.F)
	case 'S':
		return exp.Str == got.Str
	case 'B':
		return eqBytes(exp.Bytes, got.Bytes)
	case 'R':
		return exp.Ref == got.Ref
	case 'O':
		if exp.Type != got.Type || !strsEq(exp.Fields, got.Fields) || got.DefPos >= got.Pos {
			return false
		}
	case 'V', 'M':
		if exp.Type != got.Type {
			return false
		}
	}
	if exp.Ord >= 0 && exp.Ord != got.Ord {
		return false
	}
	if len(exp.Items) != len(got.Items) {
		return false
	}
	ok := true
	for i := range exp.Items {
		ok = vAnd(ok, avEqual(exp.Items[i], got.Items[i]))
	}
	return ok
}
