//go:build verif

package hessian

import "reflect"

// ---- a tiny reference *writer*, from the grammar (full-width forms only) ----

func refInt(x int32) []byte { return []byte{'I', byte(x >> 24), byte(x >> 16), byte(x >> 8), byte(x)} }
func refLong(x int64) []byte {
	return []byte{'L', byte(x >> 56), byte(x >> 48), byte(x >> 40), byte(x >> 32), byte(x >> 24), byte(x >> 16), byte(x >> 8), byte(x)}
}
func refStr(s string) []byte { // ASCII, up to 31 characters
	return append([]byte{byte(len(s))}, []byte(s)...)
}
func refCat(parts ...[]byte) []byte {
	var out []byte
	for _, p := range parts {
		out = append(out, p...)
	}
	return out
}
func refClassDef(name string, fields []string) []byte {
	out := append([]byte{'C'}, refStr(name)...)
	out = append(out, refInt(int32(len(fields)))...)
	for _, f := range fields {
		out = append(out, refStr(f)...)
	}
	return out
}
func refInstanceTag(idx int) []byte {
	if idx <= 15 {
		return []byte{byte(0x60 + idx)}
	}
	return append([]byte{'O'}, refInt(int32(idx))...)
}

type ZTriple struct {
	A int32
	B string
	C int64
}

type ZDummy struct{}

var zPerms3 = [][]int{{0, 1, 2}, {0, 2, 1}, {1, 0, 2}, {1, 2, 0}, {2, 0, 1}, {2, 1, 0}}

// H_C05_bind: a reference-encoded instance whose class definition permutes the Go fields, drops one, and adds
// an unknown field (of several value kinds) at any position, sitting at position p of the definition table:
// every Go field gets the wire value of its name, absent fields stay zero, unknown fields disturb nothing.
func H_C05_bind() {
	a, c := vInt32("a"), vInt64("c")
	bstr := "b" + string(rune('a'+vChoice("bchar", 3)))
	names := []string{"a", "b", "c"}
	if vChoice("case", 2) == 1 {
		names = []string{"A", "B", "C"} // first letter is matched case-insensitively
	}
	vals := [][]byte{refInt(a), refStr(bstr), refLong(c)}
	perm := zPerms3[vChoice("perm", 6)]
	drop := vChoice("drop", 4) - 1   // -1: none
	addAt := vChoice("addAt", 5) - 1 // -1: none, else position 0..3 in the wire definition
	var unknown []byte
	switch vChoice("unknownKind", 5) {
	case 0:
		unknown = refInt(vInt32("u"))
	case 1:
		unknown = refStr("zz")
	case 2:
		unknown = []byte{'N'}
	case 3:
		unknown = refCat([]byte{0x79}, refInt(5)) // untyped list of one int
	case 4:
		unknown = refCat([]byte{'H'}, refStr("k"), refInt(1), []byte{'Z'}) // untyped map
	}
	var fields []string
	var body []byte
	n := 0
	for i := 0; i <= 3; i++ {
		if addAt == i {
			fields = append(fields, "extra")
			body = append(body, unknown...)
		}
		if i == 3 {
			break
		}
		f := perm[i]
		if f == drop {
			continue
		}
		fields = append(fields, names[f])
		body = append(body, vals[f]...)
		n++
	}
	ps := []int{0, 1, 2, 3, 15, 16, 17}
	if vTier() == 1 {
		ps = []int{0, 1, 2, 3, 4, 7, 14, 15, 16, 17, 18, 31, 40}
	}
	p := ps[vChoice("p", len(ps))]
	// p dummy classes, each defined and instantiated once, inside one untyped list; then the target
	tm := map[string]reflect.Type{"ZTriple": reflect.TypeOf(ZTriple{})}
	wire := refCat([]byte{0x58}, refInt(int32(p+1)))
	for i := 0; i < p; i++ {
		dn := "D" + string(rune('A'+i%26)) + string(rune('a'+i/26))
		tm[dn] = reflect.TypeOf(ZDummy{})
		wire = refCat(wire, refClassDef(dn, nil), refInstanceTag(i))
	}
	wire = refCat(wire, refClassDef("ZTriple", fields), refInstanceTag(p), body)
	out, err := ToObject(wire, tm)
	vAssert("decode-noerr", err == nil)
	lst, ok := out.([]interface{})
	vAssert("list", ok && len(lst) == p+1)
	got, ok := lst[p].(*ZTriple)
	vAssert("instance-of-named-definition", ok && got != nil)
	wantA, wantB, wantC := a, bstr, c
	if drop == 0 {
		wantA = 0
	}
	if drop == 1 {
		wantB = ""
	}
	if drop == 2 {
		wantC = 0
	}
	vAssert("a", got.A == wantA)
	vAssert("b", got.B == wantB)
	vAssert("c", got.C == wantC)
}

// H_C05_redefinition: two definitions of the same class name in one stream, listing the fields in different
// orders: each instance is built from the definition its own tag denotes.
func H_C05_redefinition() {
	a1, c1 := vInt32("a1"), vInt64("c1")
	a2, c2 := vInt32("a2"), vInt64("c2")
	tm := map[string]reflect.Type{"ZTriple": reflect.TypeOf(ZTriple{})}
	p1 := zPerms3[vChoice("perm1", 6)]
	p2 := zPerms3[vChoice("perm2", 6)]
	names := []string{"a", "b", "c"}
	mk := func(perm []int, a int32, b string, c int64) ([]string, []byte) {
		vals := [][]byte{refInt(a), refStr(b), refLong(c)}
		var fs []string
		var body []byte
		for _, f := range perm {
			fs = append(fs, names[f])
			body = append(body, vals[f]...)
		}
		return fs, body
	}
	f1, b1 := mk(p1, a1, "one", c1)
	f2, b2 := mk(p2, a2, "two", c2)
	// definition #0, instance of #0, definition #1 (same name), instance of #1, again an instance of #0
	wire := refCat([]byte{0x78 + 3}, refClassDef("ZTriple", f1), []byte{0x60}, b1, refClassDef("ZTriple", f2), []byte{0x61}, b2, []byte{0x60}, b1)
	out, err := ToObject(wire, tm)
	vAssert("decode-noerr", err == nil)
	l, ok := out.([]interface{})
	vAssert("list", ok && len(l) == 3)
	g1, ok1 := l[0].(*ZTriple)
	g2, ok2 := l[1].(*ZTriple)
	g3, ok3 := l[2].(*ZTriple)
	vAssert("instances", ok1 && ok2 && ok3)
	vAssert("first", vAnd(g1.A == a1, vAnd(g1.B == "one", g1.C == c1)))
	vAssert("second", vAnd(g2.A == a2, vAnd(g2.B == "two", g2.C == c2)))
	vAssert("third", vAnd(g3.A == a1, vAnd(g3.B == "one", g3.C == c1)))
}

type ZKeep struct {
	A int32
	P *ZInner
	L []*ZInner
}

// H_C05_unknown_holds_shared: the peer's class has a field this side lacks, and an object first appears inside
// it; known fields later refer back to that object. The skipped value must still count for the numbering.
func H_C05_unknown_holds_shared() {
	tm := map[string]reflect.Type{"ZKeep": reflect.TypeOf(ZKeep{}), "ZInner": reflect.TypeOf(ZInner{}), "[ZInner": reflect.TypeOf([]*ZInner{})}
	n := vInt32("n")
	first := refCat(refClassDef("ZInner", []string{"n", "s"}), []byte{0x61}, refInt(n), refStr("sh"))
	var extra []byte
	refOrd := byte(0x91) // root is #0, the shared object #1
	switch vChoice("extra", 3) {
	case 0:
		extra = first
	case 1: // inside a list: the list is #1, the object #2
		extra = refCat([]byte{0x79}, first)
		refOrd = 0x92
	case 2: // inside a map: the map is #1, the object #2
		extra = refCat([]byte{'H'}, refStr("k"), first, []byte{'Z'})
		refOrd = 0x92
	}
	wire := refCat(refClassDef("ZKeep", []string{"extra", "a", "p", "l"}), []byte{0x60}, extra, refInt(5),
		[]byte{0x51, refOrd}, []byte{0x7a}, []byte{0x51, refOrd}, []byte{0x51, refOrd})
	out, err := ToObject(wire, tm)
	vAssert("decode-noerr", err == nil)
	g, ok := out.(*ZKeep)
	vAssert("type", ok && g.A == 5)
	vAssert("shared-kept", g.P != nil && len(g.L) == 2 && g.L[0] == g.P && g.L[1] == g.P)
	vAssert("shared-value", g.P.N == n && g.P.S == "sh")
}

type ZPerson struct {
	Name string
	Age  int32
	ID   int64
}

// H_C05_case: only the first letter is matched case-insensitively: a wire field whose name differs from a Go
// field in the case of a later letter has no Go counterpart and is skipped.
func H_C05_case() {
	age := vInt32("age")
	stray := []string{"nAME", "nAme", "aGE", "id", "NAME", "AGE"}[vChoice("stray", 6)] // ("iD" would be the field ID itself)
	var strayVal []byte
	if stray[0] == 'a' || stray[0] == 'A' {
		strayVal = refInt(99)
	} else if stray[0] == 'i' {
		strayVal = refLong(77)
	} else {
		strayVal = refStr("bogus")
	}
	before := vChoice("strayFirst", 2) == 1
	fields := []string{"name", "age", "ID"}
	body := refCat(refStr("alice"), refInt(age), refLong(5))
	if before {
		fields = append([]string{stray}, fields...)
		body = refCat(strayVal, body)
	} else {
		fields = append(fields, stray)
		body = refCat(body, strayVal)
	}
	tm := map[string]reflect.Type{"ZPerson": reflect.TypeOf(ZPerson{})}
	out, err := ToObject(refCat(refClassDef("ZPerson", fields), []byte{0x60}, body), tm)
	vAssert("decode-noerr", err == nil)
	g, ok := out.(*ZPerson)
	vAssert("type", ok)
	vAssert("bound-by-exact-name", g.Name == "alice" && g.Age == age && g.ID == 5)
}

// H_C05_edge_names: names starting with a / z / A / Z bind like any other (first letter case-insensitive).
func H_C05_edge_names() {
	x := vInt32("x")
	tm := map[string]reflect.Type{"ZEdgeNames": reflect.TypeOf(ZEdgeNames{})}
	upper := vChoice("upper", 2) == 1
	names := []string{"alpha", "zulu", "mid", "azz", "zaa", "b"}
	if upper {
		names = []string{"Alpha", "Zulu", "Mid", "Azz", "Zaa", "B"}
	}
	wire := refCat(refClassDef("ZEdgeNames", names), []byte{0x60}, refInt(x), refInt(2), refInt(3), refInt(4), refInt(5), refInt(6))
	out, err := ToObject(wire, tm)
	vAssert("decode-noerr", err == nil)
	g, ok := out.(*ZEdgeNames)
	vAssert("type", ok)
	vAssert("all-bound", g.Alpha == x && g.Zulu == 2 && g.Mid == 3 && g.Azz == 4 && g.Zaa == 5 && g.B == 6)
}

// H_C05_reused_decoder: a decoder that has read one stream reads the next stream from that stream's own
// definitions (index 0 again), not from what the earlier stream defined.
func H_C05_reused_decoder() {
	a, c := vInt32("a"), vInt64("c")
	tm := map[string]reflect.Type{"ZTriple": reflect.TypeOf(ZTriple{}), "ZInner": reflect.TypeOf(ZInner{})}
	first := refCat(refClassDef("ZInner", []string{"n", "s"}), []byte{0x60}, refInt(1), refStr("s"))
	if vChoice("first", 2) == 1 {
		first = refCat(refClassDef("ZTriple", []string{"c", "b", "a"}), []byte{0x60}, refLong(9), refStr("x"), refInt(8))
	}
	second := refCat(refClassDef("ZTriple", []string{"a", "b", "c"}), []byte{0x60}, refInt(a), refStr("bb"), refLong(c))
	var got interface{}
	var err error
	if vChoice("api", 2) == 0 {
		d := NewDecoder(nil, tm)
		_, e1 := d.Decode(first)
		vAssert("first-ok", e1 == nil)
		got, err = d.Decode(second)
	} else {
		s := NewSerializer(tm, nil)
		_, e1 := s.ToObject(first)
		vAssert("first-ok", e1 == nil)
		got, err = s.ToObject(second)
	}
	g, ok := got.(*ZTriple)
	vAssert("second", err == nil && ok)
	vAssert("fields", vAnd(g.A == a, vAnd(g.B == "bb", g.C == c)))
}
