//go:build verif

package hessian

type ZNamedKeys struct {
	M map[ZName]int32
	L []ZName
	B map[string]ZFlag
	I []ZID
	F map[ZID]ZCelsius
}

// H_C01_named_in_containers: named scalar types (type ZName string, ZFlag bool, ZID int64, ZCelsius float64) as map
// keys, map values and list elements; they travel as their underlying scalar and come back under their own type.
func H_C01_named_in_containers() {
	x := vInt32("x")
	v := &ZNamedKeys{}
	which := vChoice("which", 5)
	switch which {
	case 0:
		v.M = map[ZName]int32{"k": x}
	case 1:
		v.L = []ZName{"a", ZName(vText("s", 1))}
	case 2:
		v.B = map[string]ZFlag{"k": ZFlag(vBool("b"))}
	case 3:
		v.I = []ZID{ZID(x) << 20, 1}
	case 4:
		v.F = map[ZID]ZCelsius{ZID(x): 2.5}
	}
	typMap, nameMap := vExtract(v)
	bs, err := ToBytes(v, nameMap)
	vAssert("encode-noerr", err == nil)
	out, err := ToObject(bs, typMap)
	vAssert("decode-noerr", err == nil)
	g, ok := out.(*ZNamedKeys)
	vAssert("type", ok && g != nil)
	vAssert("sizes", len(g.M) == len(v.M) && len(g.L) == len(v.L) && len(g.B) == len(v.B) && len(g.I) == len(v.I) && len(g.F) == len(v.F))
	switch which {
	case 0:
		e, has := g.M["k"]
		vAssert("named-string-key", has && e == x)
	case 1:
		vAssert("named-string-elements", g.L[0] == "a" && g.L[1] == v.L[1])
	case 2:
		e, has := g.B["k"]
		vAssert("named-bool-value", has && e == v.B["k"])
	case 3:
		vAssert("named-long-elements", g.I[0] == ZID(x)<<20 && g.I[1] == 1)
	case 4:
		e, has := g.F[ZID(x)]
		vAssert("named-long-key-double-value", has && e == 2.5)
	}
}
