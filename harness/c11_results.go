//go:build verif

package hessian

// zResultValue: small values whose encodings are a handful of octets (where a result is most likely to live in
// storage the instance keeps for itself) and a few longer ones.
func zResultValue(k int, tag string) interface{} {
	switch k {
	case 0:
		return vInt32(tag)
	case 1:
		return vInt64(tag)
	case 2:
		return "s" + string(rune('a'+zSmall(tag)%26))
	case 3:
		return []byte{1, byte(zSmall(tag)), 3}
	case 4:
		return []int32{zSmall(tag), 2}
	case 5:
		return float64(zSmall(tag)) + 0.5
	case 6:
		return &ZInner{N: zSmall(tag), S: "r"}
	default:
		return map[string]int32{"k": zSmall(tag)}
	}
}

// H_C07_results_independent (also run for C11): the octets returned by one Encode / ToBytes call belong to the
// caller: a later call on the same encoder, serializer or pooled instance leaves them exactly as they were, and
// they still decode to the number that was encoded.
func H_C07_results_independent() {
	k1 := vChoice("first", 2)
	x := zResultValue(k1, "x")
	y := zResultValue(vChoice("second", 8), "y")
	hResultsIndependent(x, y, k1)
}

// H_C11_results_independent: the same for the other value kinds (strings, binaries, lists, doubles, objects, maps).
func H_C11_results_independent() {
	k1 := 2 + vChoice("first", 6)
	x := zResultValue(k1, "x")
	y := zResultValue(vChoice("second", 8), "y")
	hResultsIndependent(x, y, k1)
}

func hResultsIndependent(x, y interface{}, k1 int) {
	tm, nm := vExtractAll(&ZInner{}, []int32{}, map[string]int32{})
	var b1 []byte
	var err error
	switch vChoice("api", 3) {
	case 0:
		e := NewEncoder(nil, nm)
		b1, err = e.Encode(x)
		vAssert("first-noerr", err == nil)
		keep := append([]byte(nil), b1...)
		_, err = e.Encode(y)
		vAssert("second-noerr", err == nil)
		vAssert("first-result-untouched", eqBytes(keep, b1))
	case 1:
		s := NewSerializer(tm, nm)
		b1, err = s.ToBytes(x)
		vAssert("first-noerr", err == nil)
		keep := append([]byte(nil), b1...)
		_, err = s.ToBytes(y)
		vAssert("second-noerr", err == nil)
		vAssert("first-result-untouched", eqBytes(keep, b1))
	default:
		p := NewEncoderPool(1, nm)
		e := p.Get().(*Encoder)
		b1, err = e.Encode(x)
		vAssert("first-noerr", err == nil)
		keep := append([]byte(nil), b1...)
		p.Return(e)
		e2 := p.Get().(*Encoder)
		_, err = e2.Encode(y)
		vAssert("second-noerr", err == nil)
		vAssert("first-result-untouched", eqBytes(keep, b1))
	}
	out, err := ToObject(b1, tm)
	vAssert("decode-noerr", err == nil)
	switch k1 {
	case 0:
		g, ok := out.(int32)
		vAssert("still-the-number", ok && g == x.(int32))
	case 1:
		g, ok := out.(int64)
		vAssert("still-the-number", ok && g == x.(int64))
	}
}

// H_C11_decoded_independent: a value returned by one Decode / ToObject call (a byte slice, a list, an object) is
// not altered by the next call on the same decoder or serializer.
func H_C11_decoded_independent() {
	tm, nm := vExtractAll(&ZInner{}, []int32{}, map[string]int32{})
	m1, err := ToBytes(zResultValue([]int{3, 4, 6}[vChoice("first", 3)], "x"), nm)
	vAssume(err == nil)
	m2, err := ToBytes(zResultValue(2+vChoice("second", 6), "y"), nm)
	vAssume(err == nil)
	var o1 interface{}
	if vChoice("api", 2) == 0 {
		d := NewDecoder(nil, tm)
		o1, err = d.Decode(m1)
		vAssert("first-noerr", err == nil)
		snap := zSnapshot(o1)
		_, err = d.Decode(m2)
		vAssert("second-noerr", err == nil)
		vAssert("first-value-untouched", zSnapshotEq(snap, o1))
	} else {
		s := NewSerializer(tm, nm)
		o1, err = s.ToObject(m1)
		vAssert("first-noerr", err == nil)
		snap := zSnapshot(o1)
		_, err = s.ToObject(m2)
		vAssert("second-noerr", err == nil)
		_, err = s.ToBytes(o1)
		vAssert("third-noerr", err == nil)
		vAssert("first-value-untouched", zSnapshotEq(snap, o1))
	}
}

func zSnapshot(o interface{}) interface{} {
	switch v := o.(type) {
	case []byte:
		return append([]byte(nil), v...)
	case []int32:
		return append([]int32(nil), v...)
	case *ZInner:
		c := *v
		return &c
	}
	vAssert("snapshot-kind", false)
	return nil
}

func zSnapshotEq(snap, o interface{}) bool {
	switch v := o.(type) {
	case []byte:
		return eqBytes(snap.([]byte), v)
	case []int32:
		return eqInt32s(snap.([]int32), v)
	case *ZInner:
		return eqZInner(snap.(*ZInner), v)
	}
	return false
}
