//go:build verif

package hessian

import "reflect"

type ZPing struct {
	Id   int32
	Pong *ZPong
}

type ZPong struct {
	Name string
	Ping *ZPing
	All  []*ZPing
}

type ZGrid struct {
	Rows [][]int32
	Tags []string
	Cell *ZInner
}

type ZIDs []int64

func (ZIDs) HessianCodecName() string { return "[long" }

type ZAttrs map[string]string

func (ZAttrs) HessianCodecName() string { return "com.example.Attrs" }

type ZOwner struct {
	Ids   ZIDs
	Attrs ZAttrs
	Name  string
}

type ZCells struct {
	Cells [][]*ZInner
	Names [][]string
}

type ZTree struct {
	V     int32
	Kids  []*ZTree
	Named ZNamed
	Attr  map[string]*ZInner
}

func zHasType(tm map[string]reflect.Type, name string, want reflect.Type) bool {
	t, ok := tm[name]
	return ok && t == want
}

func checkClosed(id string, tm map[string]reflect.Type, nm map[string]string, goName string, want reflect.Type) {
	wire, ok := nm[goName]
	vAssert(id+"-named", ok)
	vAssert(id+"-typed", zHasType(tm, wire, want))
}

// H_C16_extract: extraction terminates (also on cyclic values and self-referential types) and yields closed,
// mutually consistent maps, from witnesses ranging from the zero value to a populated, cyclic one; the maps of
// one witness suffice to round-trip another value of the type. Map iteration order is explored here.
func H_C16_extract() {
	which := vChoice("type", 8)
	witness := vChoice("witness", 3) // 0: zero value, 1: partly populated, 2: fully populated / cyclic
	x := vInt32("x")
	vStepLimit(300000)
	switch which {
	case 0:
		w := &ZPing{}
		if witness >= 1 {
			w.Pong = &ZPong{Name: "p"}
		}
		if witness == 2 {
			w.Pong.Ping = w
			w.Pong.All = []*ZPing{w, {Id: 2}}
		}
		tm, nm := ExtractTypeNameMap(w)
		vStepLimit(0)
		checkClosed("ping", tm, nm, "ZPing", reflect.TypeOf(ZPing{}))
		checkClosed("pong", tm, nm, "ZPong", reflect.TypeOf(ZPong{}))
		checkClosed("pings", tm, nm, "[]*hessian.ZPing", reflect.TypeOf([]*ZPing{}))
		// another value of the same type round-trips with these maps
		v2 := &ZPing{Id: x, Pong: &ZPong{Name: "q", All: []*ZPing{{Id: 7}}}}
		v2.Pong.Ping = v2
		bs, err := ToBytes(v2, nm)
		vAssert("suffices-encode", err == nil)
		out, err := ToObject(bs, tm)
		vAssert("suffices-decode", err == nil)
		g, ok := out.(*ZPing)
		vAssert("suffices-type", ok && g.Pong != nil && g.Pong.Ping == g && len(g.Pong.All) == 1)
		vAssert("suffices-equal", vAnd(g.Id == x, vAnd(g.Pong.Name == "q", g.Pong.All[0].Id == 7)))
	case 1:
		w := &ZGrid{}
		if witness >= 1 {
			w.Rows = [][]int32{{1}}
		}
		if witness == 2 {
			w.Tags = []string{"t"}
			w.Cell = &ZInner{N: 1}
		}
		tm, nm := ExtractTypeNameMap(w)
		vStepLimit(0)
		checkClosed("grid", tm, nm, "ZGrid", reflect.TypeOf(ZGrid{}))
		checkClosed("inner", tm, nm, "ZInner", reflect.TypeOf(ZInner{}))
		checkClosed("rows", tm, nm, "[][]int32", reflect.TypeOf([][]int32{}))
		checkClosed("row", tm, nm, "[]int32", reflect.TypeOf([]int32{}))
		checkClosed("tags", tm, nm, "[]string", reflect.TypeOf([]string{}))
		v2 := &ZGrid{Rows: [][]int32{{x, 2}, {3}}, Tags: []string{"a", "b"}, Cell: &ZInner{N: 5, S: "c"}}
		bs, err := ToBytes(v2, nm)
		vAssert("suffices-encode", err == nil)
		out, err := ToObject(bs, tm)
		vAssert("suffices-decode", err == nil)
		g, ok := out.(*ZGrid)
		vAssert("suffices-type", ok && len(g.Rows) == 2 && len(g.Rows[0]) == 2 && len(g.Rows[1]) == 1 && g.Cell != nil)
		vAssert("suffices-equal", vAnd(g.Rows[0][0] == x, vAnd(g.Rows[0][1] == 2, vAnd(g.Rows[1][0] == 3, eqStrings(g.Tags, v2.Tags)))))
	case 2:
		w := &ZTree{}
		if witness >= 1 {
			w.Kids = []*ZTree{{V: 1}}
		}
		if witness == 2 {
			w.Kids = append(w.Kids, w)
			w.Attr = map[string]*ZInner{"a": {N: 1}}
		}
		tm, nm := ExtractTypeNameMap(w)
		vStepLimit(0)
		checkClosed("tree", tm, nm, "ZTree", reflect.TypeOf(ZTree{}))
		checkClosed("kids", tm, nm, "[]*hessian.ZTree", reflect.TypeOf([]*ZTree{}))
		checkClosed("inner", tm, nm, "ZInner", reflect.TypeOf(ZInner{}))
		wire, ok := nm["ZNamed"]
		vAssert("custom-name", ok && wire == "com.example.Named")
		vAssert("custom-typed", zHasType(tm, "com.example.Named", reflect.TypeOf(ZNamed{})))
		v2 := &ZTree{V: x, Kids: []*ZTree{{V: 2, Named: ZNamed{V: 4}}}, Named: ZNamed{V: 3}, Attr: map[string]*ZInner{"k": {N: 6, S: "s"}}}
		bs, err := ToBytes(v2, nm)
		vAssert("suffices-encode", err == nil)
		out, err := ToObject(bs, tm)
		vAssert("suffices-decode", err == nil)
		g, ok := out.(*ZTree)
		vAssert("suffices-type", ok && len(g.Kids) == 1 && g.Kids[0] != nil && g.Attr["k"] != nil)
		vAssert("suffices-equal", vAnd(g.V == x, vAnd(g.Kids[0].V == 2, vAnd(g.Kids[0].Named.V == 4, vAnd(g.Named.V == 3, g.Attr["k"].N == 6)))))
	case 7:
		w := &ZHolder{Name: "h"}
		if witness >= 1 {
			w.Items = []interface{}{int32(1), nil, &ZInner{N: 2}}
			w.Items[1] = w.Items // a list that contains itself
		}
		if witness == 2 {
			w.Attrs = map[string]interface{}{"in": &ZInner{N: 3}}
			w.Attrs["self"] = w.Attrs // a map that contains itself
		}
		tm, nm := ExtractTypeNameMap(w)
		vStepLimit(0)
		checkClosed("holder", tm, nm, "ZHolder", reflect.TypeOf(ZHolder{}))
		if witness >= 1 {
			checkClosed("inner", tm, nm, "ZInner", reflect.TypeOf(ZInner{}))
		}
		vAssert("terminated", true)
	case 6:
		w := &ZOwner{}
		if witness >= 1 {
			w.Ids = ZIDs{1}
		}
		if witness == 2 {
			w.Attrs = ZAttrs{"k": "v"}
		}
		tm, nm := ExtractTypeNameMap(w)
		vStepLimit(0)
		checkClosed("owner", tm, nm, "ZOwner", reflect.TypeOf(ZOwner{}))
		n1, ok1 := nm["ZIDs"]
		vAssert("slice-custom-name", ok1 && n1 == "[long")
		vAssert("slice-custom-typed", zHasType(tm, "[long", reflect.TypeOf(ZIDs{})))
		n2, ok2 := nm["ZAttrs"]
		vAssert("map-custom-name", ok2 && n2 == "com.example.Attrs")
		vAssert("map-custom-typed", zHasType(tm, "com.example.Attrs", reflect.TypeOf(ZAttrs{})))
		v2 := &ZOwner{Ids: ZIDs{int64(x), 2}, Attrs: ZAttrs{"a": "b"}, Name: "o"}
		bs, err := ToBytes(v2, nm)
		vAssert("suffices-encode", err == nil)
		out, err := ToObject(bs, tm)
		vAssert("suffices-decode", err == nil)
		g, ok := out.(*ZOwner)
		vAssert("suffices-type", ok && len(g.Ids) == 2 && len(g.Attrs) == 1)
		vAssert("suffices-equal", vAnd(g.Ids[0] == int64(x), vAnd(g.Ids[1] == 2, vAnd(g.Attrs["a"] == "b", g.Name == "o"))))
	case 5:
		w := &ZCells{}
		if witness == 1 {
			w.Cells = [][]*ZInner{}
			w.Names = [][]string{{}}
		}
		if witness == 2 {
			w.Cells = [][]*ZInner{{{N: 1}}}
		}
		tm, nm := ExtractTypeNameMap(w)
		vStepLimit(0)
		checkClosed("cells", tm, nm, "ZCells", reflect.TypeOf(ZCells{}))
		checkClosed("inner", tm, nm, "ZInner", reflect.TypeOf(ZInner{}))
		checkClosed("rows", tm, nm, "[][]*hessian.ZInner", reflect.TypeOf([][]*ZInner{}))
		checkClosed("row", tm, nm, "[]*hessian.ZInner", reflect.TypeOf([]*ZInner{}))
		checkClosed("names", tm, nm, "[][]string", reflect.TypeOf([][]string{}))
		v2 := &ZCells{Cells: [][]*ZInner{{{N: x, S: "a"}, nil}, {}}, Names: [][]string{{"n"}}}
		bs, err := ToBytes(v2, nm)
		vAssert("suffices-encode", err == nil)
		out, err := ToObject(bs, tm)
		vAssert("suffices-decode", err == nil)
		g, ok := out.(*ZCells)
		vAssert("suffices-type", ok && len(g.Cells) == 2 && len(g.Cells[0]) == 2 && g.Cells[0][0] != nil && g.Cells[0][1] == nil && len(g.Names) == 1)
		vAssert("suffices-equal", vAnd(g.Cells[0][0].N == x, eqStrings(g.Names[0], v2.Names[0])))
	case 3:
		// type walk: TypeMapOf on self-referential and mutually recursive types terminates and is closed
		tm := TypeMapOf(reflect.TypeOf(&ZTree{}))
		vStepLimit(0)
		vAssert("tmo-tree", zHasType(tm, "ZTree", reflect.TypeOf(ZTree{})))
		vAssert("tmo-inner", zHasType(tm, "ZInner", reflect.TypeOf(ZInner{})))
		vAssert("tmo-named", zHasType(tm, "ZNamed", reflect.TypeOf(ZNamed{})))
	case 4:
		tm := TypeMapOf(reflect.TypeOf(ZPing{}))
		vStepLimit(0)
		vAssert("tmo-ping", zHasType(tm, "ZPing", reflect.TypeOf(ZPing{})))
		vAssert("tmo-pong", zHasType(tm, "ZPong", reflect.TypeOf(ZPong{})))
	}
}

// H_C16_from_helpers: TypeMapFrom / NameMapFrom give the same maps as ExtractTypeNameMap.
func H_C16_from_helpers() {
	vMapOrderFixed(true)
	w := &ZTree{Kids: []*ZTree{{V: 1}}, Attr: map[string]*ZInner{"a": {N: 1}}}
	tm, nm := ExtractTypeNameMap(w)
	tm2 := TypeMapFrom(w)
	nm2 := NameMapFrom(w)
	vAssert("same-size", len(tm) == len(tm2) && len(nm) == len(nm2))
	same := true
	for k, t := range tm {
		if t2, ok := tm2[k]; !ok || t2 != t {
			same = false
		}
	}
	for k, n := range nm {
		if n2, ok := nm2[k]; !ok || n2 != n {
			same = false
		}
	}
	vAssert("same-entries", same)
}
