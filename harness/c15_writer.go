//go:build verif

package hessian

import (
	"errors"
	"io"
	"time"
)

var errVFault = errors.New("injected write fault")

// vFaultWriter fails at the failAt-th Write call (0-based).
// kind 0: error once; 1: error from then on; 2: short count, nil error; 3: short count with error.
type vFaultWriter struct {
	n      int
	failAt int
	kind   int
	fired  bool
	total  int
}

func (w *vFaultWriter) Write(p []byte) (int, error) {
	k := w.n
	w.n++
	hit := k == w.failAt || (w.kind == 1 && w.failAt >= 0 && k > w.failAt)
	if !hit {
		w.total += len(p)
		return len(p), nil
	}
	w.fired = true
	switch w.kind {
	case 0, 1:
		return 0, errVFault
	case 2:
		if len(p) == 0 {
			return 0, nil
		}
		w.total += len(p) - 1
		return len(p) - 1, nil
	default:
		if len(p) == 0 {
			return 0, errVFault
		}
		w.total += len(p) - 1
		return len(p) - 1, errVFault
	}
}

type ZRefHolder struct {
	A *ZInner
	B *ZInner
	L []int32
	M map[string]int32
}

// vFaultByteWriter is a destination that also offers WriteByte and WriteString (as bufio.Writer, bytes.Buffer and
// strings.Builder do): every call of any of the three is one write event with the same fault schedule.
type vFaultByteWriter struct{ vFaultWriter }

func (w *vFaultByteWriter) WriteByte(c byte) error {
	n, err := w.vFaultWriter.Write([]byte{c})
	if err == nil && n < 1 {
		return errVFault // WriteByte cannot report a short count: a destination that took nothing says so
	}
	return err
}

func (w *vFaultByteWriter) WriteString(s string) (int, error) { return w.vFaultWriter.Write([]byte(s)) }

func vC15Value(which int) (interface{}, map[string]string) {
	switch which {
	case 0:
		return vInt32("x"), map[string]string{}
	case 1:
		return "hello", map[string]string{}
	case 2:
		v := &ZInner{N: vInt32("n"), S: "ab"}
		_, nm := vExtract(v)
		return v, nm
	case 3:
		v := []int32{1, vInt32("e"), 3}
		_, nm := vExtract(v)
		return v, nm
	case 4:
		v := map[string]int32{"a": 1}
		_, nm := vExtract(v)
		return v, nm
	case 5:
		in := &ZInner{N: 5, S: "x"}
		v := &ZRefHolder{A: in, B: in, L: []int32{7}, M: map[string]int32{"k": 2}}
		_, nm := vExtract(v)
		return v, nm
	case 6:
		return []interface{}{nil, int32(1), "s"}, map[string]string{}
	case 7:
		v := &ZOuter{A: 1, In: ZInner{N: 2, S: "i"}, Z: 3}
		_, nm := vExtract(v)
		return v, nm
	case 13: // a registered list type with more than 7 elements: the 'V' type int header is three writes of its own
		v := []int32{1, 2, 3, 4, 5, 6, 7, 8, vInt32("e")}
		_, nm := vExtract(v)
		return v, nm
	case 14: // a struct holding a registered named map, a long typed list of objects and a long untyped list
		v := &ZTypedMix{Attrs: ZAttrs{"k": "v"}, L1: []int32{1, 2, 3, 4, 5, 6, 7, 8, 9}, L3: []string{"a", "b", "c", "d", "e", "f", "g", "h", "i"}}
		_, nm := vExtract(v)
		return v, nm
	case 11: // timestamps: on their own path to the writer
		v := &ZTimes{A: 1, T: time.Unix(int64(vInt32("x")), 5000000), Ts: []time.Time{time.Unix(7, 0), {}}}
		_, nm := vExtract(v)
		return v, nm
	case 12:
		return []interface{}{time.Unix(int64(vInt32("x")), 0), 2.5, int64(1) << 40, true, nil}, map[string]string{}
	case 9:
		b := make([]byte, 8292) // three chunks
		b[5000] = byte(vInt32("x"))
		return b, map[string]string{}
	case 10:
		v := &ZText{A: "a", B: make([]byte, 4100), Z: 1}
		_, nm := vExtract(v)
		return v, nm
	default:
		// 18 distinct classes: the last ones are written in the long 'O' form
		v := zManyClasses(18, 5, 17)
		_, nm := vExtract(v)
		return v, nm
	}
}

// H_C15_fault: for every value, every index k of the k-th Write made while encoding it, and every fault
// kind: if the fault fired, the encode call reports an error.
func H_C15_fault() {
	which := vChoice("value", 15)
	v, nm := vC15Value(which)
	rich := vChoice("destination", 2) == 1 // a plain io.Writer, or one that offers WriteByte / WriteString too
	// fault-free run: count the write events
	var w0 io.Writer
	c0 := &vFaultWriter{failAt: -1}
	w0 = c0
	if rich {
		r := &vFaultByteWriter{vFaultWriter{failAt: -1}}
		w0, c0 = r, &r.vFaultWriter
	}
	e0 := NewEncoder(nil, nm)
	err0 := e0.WriteTo(w0, v)
	vAssert("faultfree-ok", err0 == nil && !c0.fired)
	W := c0.n
	vAssume(W > 0)
	k := vChoice("k", W)
	kind := vChoice("kind", 4)
	var w io.Writer
	st := &vFaultWriter{failAt: k, kind: kind}
	w = st
	if rich {
		r := &vFaultByteWriter{vFaultWriter{failAt: k, kind: kind}}
		w, st = r, &r.vFaultWriter
	}
	var err error
	switch vChoice("entry", 3) {
	case 0:
		err = NewEncoder(nil, nm).WriteTo(w, v)
	case 1:
		err = NewEncoder(w, nm).WriteObject(v)
	default:
		err = NewSerializer(nil, nm).WriteTo(w, v)
	}
	if st.fired {
		vAssert("fault-surfaces", err != nil)
	} else {
		vAssert("no-fault-no-error", err == nil)
	}
}
