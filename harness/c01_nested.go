//go:build verif

package hessian

type ZClash struct {
	L  []*ZInner
	S  []ZInner
	LL [][]*ZInner
}

type ZNestMaps struct {
	LM []map[string]int32
	MM map[string]map[string]int32
	ML map[string][]*ZInner
	MS map[string][]ZInner
	MP map[string]*ZInner
}

// H_C01_list_name_clash: []T and []*T travel under one list type name. Whatever order the extraction meets them in
// (map iteration order is left to the solver here), a nil element of the pointer list stays nil and both lists
// keep their elements.
func H_C01_list_name_clash() {
	x := vInt32("x")
	v := &ZClash{L: []*ZInner{{N: x, S: "l"}, nil}, S: []ZInner{{N: 3, S: "s"}}}
	if vChoice("nested", 2) == 1 {
		v.LL = [][]*ZInner{{nil, {N: x, S: "ll"}}}
	}
	typMap, nameMap := ExtractTypeNameMap(v) // iteration order inside is a solver choice
	vMapOrderFixed(true)
	bs, err := ToBytes(v, nameMap)
	vAssert("encode-noerr", err == nil)
	out, err := ToObject(bs, typMap)
	vAssert("decode-noerr", err == nil)
	g, ok := out.(*ZClash)
	vAssert("type", ok && g != nil)
	vAssert("lengths", len(g.L) == 2 && len(g.S) == 1 && len(g.LL) == len(v.LL))
	vAssert("nil-element-stays-nil", g.L[1] == nil)
	vAssert("elements", g.L[0] != nil && g.L[0].N == x && g.L[0].S == "l" && g.S[0].N == 3 && g.S[0].S == "s")
	if len(v.LL) == 1 {
		vAssert("nested", len(g.LL[0]) == 2 && g.LL[0][0] == nil && g.LL[0][1] != nil && g.LL[0][1].N == x)
	}
}

// H_C01_nested_maps: maps inside slices and maps ("nested to any depth"): an unnamed Go map type travels untyped
// and is given the Go types of the place it is assigned to, also as a list element and as a map value.
func H_C01_nested_maps() {
	x := vInt32("x")
	v := &ZNestMaps{}
	which := vChoice("which", 6)
	switch which {
	case 0:
		v.LM = []map[string]int32{{"a": x}, {}, {"b": 2}}
	case 1:
		v.MM = map[string]map[string]int32{"k": {"a": x}}
	case 2:
		v.ML = map[string][]*ZInner{"k": {{N: x, S: "s"}, nil}}
	case 3:
		v.MS = map[string][]ZInner{"k": {{N: x, S: "s"}}}
		v.ML = map[string][]*ZInner{"j": {nil}}
	case 4:
		v.MP = map[string]*ZInner{"k": {N: x, S: "s"}}
		v.MS = map[string][]ZInner{}
	case 5: // a top-level list of maps
		l := []map[string]int32{{"a": x}}
		typMap, nameMap := vExtract(l)
		bs, err := ToBytes(l, nameMap)
		vAssert("encode-noerr", err == nil)
		out, err := ToObject(bs, typMap)
		vAssert("decode-noerr", err == nil)
		g, ok := out.([]map[string]int32)
		vAssert("type", ok && len(g) == 1 && len(g[0]) == 1)
		e, has := g[0]["a"]
		vAssert("entry", has && e == x)
		return
	}
	typMap, nameMap := vExtract(v)
	bs, err := ToBytes(v, nameMap)
	vAssert("encode-noerr", err == nil)
	out, err := ToObject(bs, typMap)
	vAssert("decode-noerr", err == nil)
	g, ok := out.(*ZNestMaps)
	vAssert("type", ok && g != nil)
	vAssert("sizes", len(g.LM) == len(v.LM) && len(g.MM) == len(v.MM) && len(g.ML) == len(v.ML) && len(g.MS) == len(v.MS) && len(g.MP) == len(v.MP))
	switch which {
	case 0:
		e, has := g.LM[0]["a"]
		f, hasf := g.LM[2]["b"]
		vAssert("list-of-maps", has && e == x && len(g.LM[1]) == 0 && hasf && f == 2)
	case 1:
		e, has := g.MM["k"]["a"]
		vAssert("map-of-maps", has && e == x && len(g.MM["k"]) == 1)
	case 2:
		l := g.ML["k"]
		vAssert("map-of-pointer-lists", len(l) == 2 && l[0] != nil && l[0].N == x && l[1] == nil)
	case 3:
		l := g.MS["k"]
		j := g.ML["j"]
		vAssert("map-of-struct-lists", len(l) == 1 && l[0].N == x && l[0].S == "s" && len(j) == 1 && j[0] == nil)
	case 4:
		e := g.MP["k"]
		vAssert("map-of-pointers", e != nil && e.N == x)
	}
}

type ZW16x32 struct {
	Label string
	Short []int16
	Wide  []int32
}

type ZW8x32 struct {
	Tiny []int8
	Wide []int32
}

type ZWPlain struct {
	Wide  []int32
	Plain []int
}

type ZWUnsigned struct {
	U16 []uint16
	U32 []uint32
}

type ZWLong struct {
	Long []int64
	U64  []uint64
	Wide []int32
}

// hWidthLists: integer slices of two or three different widths side by side in one value, with no scalar field
// of those kinds and no slice of another width anywhere (so nothing but these slices tells the extracted maps which
// widths exist): every element comes back as the number it was, in a slice of its own type.
func hWidthLists() {
	x16, x32 := vInt16("s"), vInt32("w")
	// one wire form each (forms are C07's kernels' subject): a one-octet int16 and an int32 beyond the 16-bit range
	vAssume(x16 >= 0 && x16 <= 40)
	vAssume(x32 > 262143)
	var v interface{}
	which := vChoice("which", 5)
	switch which {
	case 0:
		v = &ZW16x32{Label: "l", Short: []int16{x16, 1}, Wide: []int32{x32, 2}}
	case 1:
		v = &ZW8x32{Tiny: []int8{int8(x16)}, Wide: []int32{x32}}
	case 2:
		v = &ZWPlain{Wide: []int32{x32}, Plain: []int{int(x32)}}
	case 3:
		v = &ZWUnsigned{U16: []uint16{uint16(x16)}, U32: []uint32{uint32(x32)}}
	case 4:
		v = &ZWLong{Long: []int64{int64(x32) << 20}, U64: []uint64{uint64(uint32(x32)) << 8}, Wide: []int32{x32}}
	}
	typMap, nameMap := ExtractTypeNameMap(v) // iteration order left to the solver
	vMapOrderFixed(true)
	bs, err := ToBytes(v, nameMap)
	vAssert("encode-noerr", err == nil)
	out, err := ToObject(bs, typMap)
	vAssert("decode-noerr", err == nil)
	switch which {
	case 0:
		g, ok := out.(*ZW16x32)
		vAssert("int16-and-int32", ok && g != nil && len(g.Short) == 2 && len(g.Wide) == 2 && g.Short[0] == x16 && g.Short[1] == 1 && g.Wide[0] == x32 && g.Wide[1] == 2)
	case 1:
		g, ok := out.(*ZW8x32)
		vAssert("int8-and-int32", ok && g != nil && len(g.Tiny) == 1 && len(g.Wide) == 1 && g.Tiny[0] == int8(x16) && g.Wide[0] == x32)
	case 2:
		g, ok := out.(*ZWPlain)
		vAssert("int32-and-int", ok && g != nil && len(g.Plain) == 1 && len(g.Wide) == 1 && g.Plain[0] == int(x32) && g.Wide[0] == x32)
	case 3:
		g, ok := out.(*ZWUnsigned)
		vAssert("unsigned", ok && g != nil && len(g.U16) == 1 && len(g.U32) == 1 && g.U16[0] == uint16(x16) && g.U32[0] == uint32(x32))
	case 4:
		g, ok := out.(*ZWLong)
		vAssert("longs", ok && g != nil && len(g.Long) == 1 && len(g.U64) == 1 && len(g.Wide) == 1 && g.Long[0] == int64(x32)<<20 && g.U64[0] == uint64(uint32(x32))<<8 && g.Wide[0] == x32)
	}
}

// H_C01_int_width_lists: integer slices of different widths side by side (see hWidthLists).
func H_C01_int_width_lists() { hWidthLists() }

// H_C07_int_width_lists: the same harness under C07 (every element decodes to exactly the same number).
func H_C07_int_width_lists() { hWidthLists() }

// ZUnicodeNames: exported fields whose first letter is a capital outside ASCII.
type ZUnicodeNames struct {
	Ärger  string
	Ωhm    int32
	Élan   []int32
	Normal int32
	Ölung  *ZInner
}

// H_C01_unicode_field_names: whatever the class definition calls such fields on the wire, the decoder finds them
// again: every field value comes back.
func H_C01_unicode_field_names() {
	x := vInt32("x")
	v := &ZUnicodeNames{Ärger: "a", Ωhm: x, Élan: []int32{1, x}, Normal: 4, Ölung: &ZInner{N: x, S: "o"}}
	typMap, nameMap := vExtract(v)
	bs, err := ToBytes(v, nameMap)
	vAssert("encode-noerr", err == nil)
	_, n, p := refParse(bs)
	vAssert("wire-wellformed", p.err == "" && n == len(bs))
	out, err := ToObject(bs, typMap)
	vAssert("decode-noerr", err == nil)
	g, ok := out.(*ZUnicodeNames)
	vAssert("type", ok && g != nil)
	vAssert("fields", g.Ärger == "a" && g.Ωhm == x && len(g.Élan) == 2 && g.Élan[1] == x && g.Normal == 4 && g.Ölung != nil && g.Ölung.N == x)
}
