//go:build verif

package hessian

import "reflect"

// hInterleaved: two distinct instances a and b sharing complete maps. Caller A makes four calls on a (WriteTo, Write,
// then ToObject-or-ReadFrom on its own two-value stream, then Read), caller B two calls on b (WriteTo, ToObject);
// the solver-chosen schedule is any of the 15 ways to interleave the two call sequences (calls are the atomic unit
// here; accesses inside a call are H_C12_no_shared_writes' subject). Every call must return what it returns when
// the other caller does not exist.
func hInterleaved(a, b Serializer, tm map[string]reflect.Type, nm map[string]string) {
	x := &ZInner{N: zSmall("x"), S: "a"}
	z := []int32{1, zSmall("z")}
	y := &ZOuter{A: zSmall("y"), In: ZInner{N: 1, S: "i"}, P: &ZInner{N: 2, S: "p"}, Z: 3}
	// what each caller gets alone (fresh private instances)
	alone := NewSerializer(tm, nm)
	wantA := &vBufWriter{}
	vAssume(alone.WriteTo(wantA, x) == nil && alone.Write(z) == nil)
	wantB, err := ToBytes(y, nm)
	vAssume(err == nil)

	permB := refCat(refClassDef("ZOuter", []string{"z", "p", "in", "a"}), []byte{0x60}, refLong(3),
		refClassDef("ZInner", []string{"s", "n"}), []byte{0x61}, refStr("p"), refInt(2),
		[]byte{0x61}, refStr("i"), refInt(1), refInt(y.A))
	wa, wb := &vBufWriter{}, &vBufWriter{}
	oneShot := vChoice("a3", 2) == 0
	stepA := func(i int) {
		switch i {
		case 0:
			vAssert("A1-writeto", a.WriteTo(wa, x) == nil)
		case 1:
			vAssert("A2-write", a.Write(z) == nil)
			vAssert("A-stream-as-alone", eqBytes(wa.b, wantA.b))
		case 2:
			var o interface{}
			var err error
			if oneShot {
				o, err = a.ToObject(wantA.b)
			} else {
				o, err = a.ReadFrom(&vCountingReader{b: wantA.b})
			}
			g, ok := o.(*ZInner)
			vAssert("A3-first-value", err == nil && ok && g != nil && eqZInner(x, g))
		case 3:
			o, err := a.Read()
			g, ok := o.([]int32)
			vAssert("A4-second-value", err == nil && ok && eqInt32s(z, g))
		}
	}
	stepB := func(i int) {
		switch i {
		case 0:
			vAssert("B1-writeto", b.WriteTo(wb, y) == nil)
			vAssert("B-stream-as-alone", eqBytes(wb.b, wantB))
		case 1:
			// B's peer lists the fields of both classes in another order than A's stream does
			o, err := b.ToObject(permB)
			g, ok := o.(*ZOuter)
			vAssert("B2-value", err == nil && ok && g != nil && eqZOuter(y, g))
		}
	}
	// schedule: positions p<q (0..5) of B's two calls in the merged sequence of six
	sched := vChoice("schedule", 15)
	p, q, k := 0, 1, 0
	for pp := 0; pp < 6; pp++ {
		for qq := pp + 1; qq < 6; qq++ {
			if k == sched {
				p, q = pp, qq
			}
			k++
		}
	}
	ia := 0
	for t := 0; t < 6; t++ {
		switch t {
		case p:
			stepB(0)
		case q:
			stepB(1)
		default:
			stepA(ia)
			ia++
		}
	}
	vAssert("A-stream-final", eqBytes(wa.b, wantA.b))
	vAssert("B-stream-final", eqBytes(wb.b, wantB))
}

func zInterleaveMaps() (map[string]reflect.Type, map[string]string) {
	return vExtractAll(&ZOuter{P: &ZInner{}}, []int32{})
}

// H_C12_interleaved_calls: instances from the constructors, from one pool, or one of each.
func H_C12_interleaved_calls() {
	tm, nm := zInterleaveMaps()
	var a, b Serializer
	switch vChoice("source", 3) {
	case 0:
		a, b = NewSerializer(tm, nm), NewSerializer(tm, nm)
	case 1:
		p := NewSerializerPool(2, tm, nm)
		a, b = p.Get().(Serializer), p.Get().(Serializer)
	case 2:
		p := NewSerializerPool(1, tm, nm)
		used := p.Get().(Serializer)
		used.ToBytes(int32(1))
		p.Return(used)
		a, b = p.Get().(Serializer), NewSerializer(tm, nm)
	}
	hInterleaved(a, b, tm, nm)
}

// H_C17_two_holders: two serializers checked out of one pool at the same time are two objects in every respect:
// what one holder does with its serializer never shows in the other's.
func H_C17_two_holders() {
	tm, nm := zInterleaveMaps()
	size := vChoice("size", 3)
	p := NewSerializerPool(size, tm, nm)
	if vChoice("warm", 2) == 1 {
		w := p.Get()
		p.Return(w)
	}
	a, b := p.Get().(Serializer), p.Get().(Serializer)
	vAssert("distinct", a != b)
	hInterleaved(a, b, tm, nm)
}

// H_C17_two_holders_codecs: the same for encoder and decoder pools (streaming calls of two held objects interleaved).
func H_C17_two_holders_codecs() {
	tm, nm := zInterleaveMaps()
	ep := NewEncoderPool(vChoice("size", 3), nm)
	dp := NewDecoderPool(1, tm)
	e1, e2 := ep.Get().(*Encoder), ep.Get().(*Encoder)
	d1, d2 := dp.Get().(*Decoder), dp.Get().(*Decoder)
	vAssert("distinct", e1 != e2 && d1 != d2)
	x := &ZInner{N: zSmall("x"), S: "a"}
	y := &ZInner{N: zSmall("y"), S: "b"}
	w1, w2 := &vBufWriter{}, &vBufWriter{}
	e1.Reset(w1)
	e2.Reset(w2)
	vAssert("w1a", e1.WriteObject(x) == nil)
	vAssert("w2a", e2.WriteObject(y) == nil)
	vAssert("w1b", e1.WriteObject(x) == nil) // a back-reference on stream 1
	vAssert("w2b", e2.WriteObject(x) == nil) // a new object on stream 2
	want1, want2 := &vBufWriter{}, &vBufWriter{}
	f := NewEncoder(want1, nm)
	vAssume(f.WriteObject(x) == nil && f.WriteObject(x) == nil)
	f = NewEncoder(want2, nm)
	vAssume(f.WriteObject(y) == nil && f.WriteObject(x) == nil)
	vAssert("stream1-as-alone", eqBytes(w1.b, want1.b))
	vAssert("stream2-as-alone", eqBytes(w2.b, want2.b))
	d1.Reset(&vCountingReader{b: w1.b})
	d2.Reset(&vCountingReader{b: w2.b})
	o1, err1 := d1.ReadObject()
	o2, err2 := d2.ReadObject()
	o3, err3 := d1.ReadObject()
	o4, err4 := d2.ReadObject()
	vAssert("reads-noerr", err1 == nil && err2 == nil && err3 == nil && err4 == nil)
	g1, ok1 := o1.(*ZInner)
	g2, ok2 := o2.(*ZInner)
	g3, ok3 := o3.(*ZInner)
	g4, ok4 := o4.(*ZInner)
	vAssert("types", ok1 && ok2 && ok3 && ok4)
	vAssert("stream1-values", eqZInner(x, g1) && g3 == g1)
	vAssert("stream2-values", eqZInner(y, g2) && eqZInner(x, g4) && g4 != g2)
}
