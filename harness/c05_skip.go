//go:build verif

package hessian

import "reflect"

// H_C05_unknown_field_of_unknown_type: the wire field this side lacks holds values of types this side has never
// heard of (that is the normal case: the Go struct lacks the field, so nothing registered its type): an object of
// an unknown class, a typed list and a typed map of unknown type names, unknown objects inside a list. The field is
// skipped, the fields after it are undisturbed, and objects behind it keep their ordinals.
func H_C05_unknown_field_of_unknown_type() {
	tm := map[string]reflect.Type{"ZKeep": reflect.TypeOf(ZKeep{}), "ZInner": reflect.TypeOf(ZInner{}), "[ZInner": reflect.TypeOf([]*ZInner{})}
	n := vInt32("n")
	unk := refCat(refClassDef("no.such.Class", []string{"u", "v"}), []byte{0x61}, refInt(1), refStr("x"))
	var extra []byte
	k := 0 // containers inside the skipped value
	switch vChoice("extra", 6) {
	case 0:
		extra, k = unk, 1
	case 1:
		extra, k = refCat([]byte{'V'}, refStr("[no.such"), refInt(2), refInt(1), refInt(2)), 1
	case 2:
		extra, k = refCat([]byte{'M'}, refStr("no.such.Map"), refStr("k"), refInt(1), []byte{'Z'}), 1
	case 3: // two unknown objects in an untyped list, the second by its now known definition
		extra, k = refCat([]byte{0x7a}, unk, []byte{0x61}, refInt(2), refStr("y")), 3
	case 4: // an unknown object whose field holds a known one (ZInner is definition #2 then)
		extra = refCat(refClassDef("no.such.Holder", []string{"h"}), []byte{0x61},
			refClassDef("ZInner", []string{"n", "s"}), []byte{0x62}, refInt(7), refStr("in"))
		k = 2
	case 5: // a variable-length typed list of unknown type
		extra, k = refCat([]byte{0x55}, refStr("[no.such"), refInt(1), []byte{'Z'}), 1
	}
	// after the skipped field: a (int), p (a new ZInner object, ordinal 1+k), l = [p again]
	innerIdx := byte(0x61)
	var innerDef []byte
	switch {
	case k == 2: // case 4 defined no.such.Holder (#1) and ZInner (#2)
		innerIdx = 0x62
	case k == 1 && extra[0] != 'C': // no class defined inside the skipped value
		innerDef = refClassDef("ZInner", []string{"n", "s"})
	default: // no.such.Class is #1, ZInner becomes #2
		innerDef = refClassDef("ZInner", []string{"n", "s"})
		innerIdx = 0x62
	}
	p := refCat(innerDef, []byte{innerIdx}, refInt(n), refStr("p"))
	wire := refCat(refClassDef("ZKeep", []string{"extra", "a", "p", "l"}), []byte{0x60}, extra, refInt(5),
		p, []byte{0x79}, []byte{0x51, byte(0x90 + 1 + k)})
	out, err := ToObject(wire, tm)
	vAssert("decode-noerr", err == nil)
	g, ok := out.(*ZKeep)
	vAssert("later-fields-undisturbed", ok && g != nil && g.A == 5 && g.P != nil && g.P.N == n && g.P.S == "p")
	vAssert("ordinals-kept", len(g.L) == 1 && g.L[0] == g.P)
}

// refClassDefU: refClassDef for field names outside ASCII (string lengths count code points, not octets).
func refClassDefU(name string, fields []string) []byte {
	out := append([]byte{'C'}, refStr(name)...)
	out = append(out, refInt(int32(len(fields)))...)
	for _, f := range fields {
		out = append(out, byte(len([]rune(f))))
		out = append(out, []byte(f)...)
	}
	return out
}

// H_C05_unknown_field_odd_names: the wire field this side lacks has a name no Go field could have: the empty
// string, one symbolic octet (any of U+0001..U+007F, so digits, '_' and punctuation too), a name starting with a
// two-octet code point. It is skipped like any other unknown field, before and after known ones.
func H_C05_unknown_field_odd_names() {
	tm := map[string]reflect.Type{"ZTriple": reflect.TypeOf(ZTriple{})}
	var name string
	switch vChoice("name", 3) {
	case 0:
		name = ""
	case 1:
		c := vUint8("c")
		vAssume(c >= 1 && c < 0x80 && c != 'a' && c != 'b' && c != 'c' && c != 'A' && c != 'B' && c != 'C')
		name = string([]byte{c})
	case 2:
		name = "éx"
	}
	a, cc := vInt32("a"), vInt64("cc")
	var wire []byte
	if vChoice("pos", 2) == 0 {
		wire = refCat(refClassDefU("ZTriple", []string{name, "a", "b", "c"}), []byte{0x60}, refInt(9), refInt(a), refStr("s"), refLong(cc))
	} else {
		wire = refCat(refClassDefU("ZTriple", []string{"a", "b", name, "c"}), []byte{0x60}, refInt(a), refStr("s"), refInt(9), refLong(cc))
	}
	out, err := ToObject(wire, tm)
	vAssert("decode-noerr", err == nil)
	g, ok := out.(*ZTriple)
	vAssert("later-fields-undisturbed", ok && g != nil && g.A == a && g.B == "s" && g.C == cc)
}
