//go:build verif

package hessian

// vScalar: an arbitrary Unicode scalar value (any UTF-8 width).
func vScalar(name string) rune {
	r := vRune(name)
	vAssume(r >= 0)
	vAssume(r <= 0x10ffff)
	vAssume(vOr(r < 0xd800, r > 0xdfff))
	return r
}

func checkStringWire(bs []byte, s string) {
	av, n, p := refParse(bs)
	vAssert("wire-wellformed", p.err == "")
	vAssert("wire-consumed", n == len(bs))
	vAssert("wire-content", av.Kind == 'S' && av.Str == s)
}

// H_C09_short_strings: strings of 0..3 arbitrary code points (every UTF-8 width pattern), kernel level.
func H_C09_short_strings() {
	n := vChoice("n", 4)
	rs := make([]rune, n)
	for i := range rs {
		rs[i] = vScalar("r")
	}
	s := string(rs)
	bs := encodeString(s)
	checkStringWire(bs, s)
	got, err := decodeStringValue(vReader(bs), _tagRead)
	vAssert("decode-noerr", err == nil)
	vAssert("roundtrip", got == s)
}

var zStrLensQuick = []int{31, 32, 1023, 1024, 2047, 2048, 2049, 2080, 4096, 4097}
var zStrLensThorough = []int{30, 31, 32, 33, 1022, 1023, 1024, 1025, 2046, 2047, 2048, 2049, 2050, 2079, 2080, 2081, 3071, 3072, 3073,
	4095, 4096, 4097, 4098, 6143, 6144, 6145, 6184}

// H_C09_long_strings: real chunk constants. Concrete ASCII filler, with one arbitrary code point (any width)
// at a position around a chunk boundary, at the start or at the end.
func H_C09_long_strings() {
	lens := zStrLensQuick
	if vTier() == 1 {
		lens = zStrLensThorough
	}
	n := lens[vChoice("len", len(lens))]
	cands := []int{0, n - 1, 2046, 2047, 2048, 2049, 4095, 4096}
	pos := cands[vChoice("pos", len(cands))]
	vAssume(pos < n)
	rs := make([]rune, n)
	for i := range rs {
		rs[i] = rune('a' + i%26)
	}
	rs[pos] = vScalar("r")
	s := string(rs)
	bs := encodeString(s)
	checkStringWire(bs, s)
	got, err := decodeStringValue(vReader(bs), _tagRead)
	vAssert("decode-noerr", err == nil)
	vAssert("roundtrip", got == s)
	// followed by another value: the string must consume exactly its own characters
	out, err := ToObject(refCat([]byte{0x78 + 2}, bs, refInt(7)), nil)
	l, ok := out.([]interface{})
	vAssert("framing", err == nil && ok && len(l) == 2)
	g0, ok0 := l[0].(string)
	g1, ok1 := l[1].(int32)
	vAssert("framing-values", ok0 && ok1 && g0 == s && g1 == 7)
}

var zBinLensQuick = []int{0, 1, 15, 16, 17, 1023, 1024, 4095, 4096, 4097, 8193}
var zBinLensThorough = []int{0, 1, 2, 14, 15, 16, 17, 18, 1022, 1023, 1024, 1025, 4094, 4095, 4096, 4097, 4098, 8191, 8192, 8193, 12288, 12289, 12328}

// H_C09_binaries: byte slices at every length form; one arbitrary octet at a boundary position.
func H_C09_binaries() {
	lens := zBinLensQuick
	if vTier() == 1 {
		lens = zBinLensThorough
	}
	n := lens[vChoice("len", len(lens))]
	b := make([]byte, n)
	for i := range b {
		b[i] = byte(i*7 + 1)
	}
	if n > 0 {
		cands := []int{0, n - 1, 4095, 4096}
		pos := cands[vChoice("pos", len(cands))]
		vAssume(pos < n)
		b[pos] = vUint8("b")
	}
	bs := encodeBinary(b)
	av, m, p := refParse(bs)
	vAssert("wire-wellformed", p.err == "")
	vAssert("wire-consumed", m == len(bs))
	vAssert("wire-content", av.Kind == 'B' && eqBytes(av.Bytes, b))
	got, err := decodeBinaryValue(vReader(bs), _tagRead)
	vAssert("decode-noerr", err == nil)
	vAssert("roundtrip", eqBytes(got, b))
	out, err := ToObject(refCat([]byte{0x78 + 2}, bs, refInt(7)), nil)
	l, ok := out.([]interface{})
	vAssert("framing", err == nil && ok && len(l) == 2)
	g0, ok0 := l[0].([]byte)
	g1, ok1 := l[1].(int32)
	vAssert("framing-values", ok0 && ok1 && eqBytes(g0, b) && g1 == 7)
}

type ZText struct {
	A string
	B []byte
	L []string
	M map[string]string
	Z int32
}

// H_C09_positions: strings and byte slices as struct field, list element, map key and map value, including
// the empty string in every position.
func H_C09_positions() {
	mk := func(tag string) string {
		n := vChoice(tag+"len", 3)
		rs := make([]rune, n)
		for i := range rs {
			rs[i] = vScalar(tag)
		}
		return string(rs)
	}
	v := &ZText{Z: 9}
	switch vChoice("where", 5) {
	case 0:
		v.A = mk("a")
	case 1:
		v.B = vBytes("b", vChoice("blen", 3))
	case 2:
		v.L = []string{"x", mk("l"), "y"}
	case 3:
		v.M = map[string]string{mk("k"): "v"}
	case 4:
		v.M = map[string]string{"k": mk("v")}
	}
	typMap, nameMap := vExtract(v)
	bs, err := ToBytes(v, nameMap)
	vAssert("encode-noerr", err == nil)
	out, err := ToObject(bs, typMap)
	vAssert("decode-noerr", err == nil)
	got, ok := out.(*ZText)
	vAssert("type", ok)
	okAll := vAnd(got.A == v.A, vAnd(eqBytes(got.B, v.B), got.Z == v.Z))
	okAll = vAnd(okAll, eqStrings(got.L, v.L))
	vAssert("equal", okAll)
	vAssert("map-size", len(got.M) == len(v.M))
	for k, x := range v.M {
		y, has := got.M[k]
		vAssert("map-entry", has && x == y)
	}
}

type ZBlobs struct {
	A []byte
	B []byte
	P *ZInner
	Q *ZInner
	S string
	T string
}

// H_C09_repeated: the very same byte slice (one backing array) or string at several places of one message - two
// struct fields, two list elements, list element and map value - with a shared object after it: every occurrence
// comes back with the full content (binaries and strings are values, never back-references), and the shared
// object behind them is still shared.
func H_C09_repeated() {
	n := 1 + vChoice("len", 3)
	b := vBytes("b", n)
	s := string([]rune{vScalar("s"), 'x'})
	p := &ZInner{N: 7, S: s}
	tm, nm := vExtractAll(&ZBlobs{P: &ZInner{}}, []int32{})
	var v interface{}
	where := vChoice("where", 4)
	switch where {
	case 0:
		v = &ZBlobs{A: b, B: b, P: p, Q: p, S: s, T: s}
	case 1:
		v = []interface{}{b, b, p, p, s, s}
	case 2:
		v = []interface{}{b, map[string]interface{}{"k": b}, b[:n], p, p}
	case 3: // a prefix of the same array is a different value
		v = []interface{}{b, b[:n-1], b, p, p}
	}
	bs, err := ToBytes(v, nm)
	vAssert("encode-noerr", err == nil)
	av, cnt, ps := refParse(bs)
	vAssert("wire-wellformed", ps.err == "" && cnt == len(bs) && av != nil)
	out, err := ToObject(bs, tm)
	vAssert("decode-noerr", err == nil)
	switch where {
	case 0:
		g, ok := out.(*ZBlobs)
		vAssert("type", ok && g != nil)
		vAssert("both-binaries", vAnd(eqBytes(g.A, b), eqBytes(g.B, b)))
		vAssert("both-strings", g.S == s && g.T == s)
		vAssert("object-still-shared", g.P != nil && g.P == g.Q && g.P.S == s)
	case 1:
		l, ok := out.([]interface{})
		vAssert("type", ok && len(l) == 6)
		b0, ok0 := l[0].([]byte)
		b1, ok1 := l[1].([]byte)
		vAssert("both-binaries", ok0 && ok1 && vAnd(eqBytes(b0, b), eqBytes(b1, b)))
		p2, ok2 := l[2].(*ZInner)
		p3, ok3 := l[3].(*ZInner)
		vAssert("object-still-shared", ok2 && ok3 && p2 != nil && p2 == p3 && p2.S == s)
		s4, ok4 := l[4].(string)
		s5, ok5 := l[5].(string)
		vAssert("both-strings", ok4 && ok5 && s4 == s && s5 == s)
	case 2:
		l, ok := out.([]interface{})
		vAssert("type", ok && len(l) == 5)
		b0, ok0 := l[0].([]byte)
		b2, ok2 := l[2].([]byte)
		vAssert("both-binaries", ok0 && ok2 && vAnd(eqBytes(b0, b), eqBytes(b2, b)))
		m, okm := l[1].(map[interface{}]interface{})
		vAssert("map", okm && len(m) == 1)
		bm, okb := m["k"].([]byte)
		vAssert("map-value-binary", okb && eqBytes(bm, b))
		p3, ok3 := l[3].(*ZInner)
		p4, ok4 := l[4].(*ZInner)
		vAssert("object-still-shared", ok3 && ok4 && p3 != nil && p3 == p4)
	case 3:
		l, ok := out.([]interface{})
		vAssert("type", ok && len(l) == 5)
		b0, ok0 := l[0].([]byte)
		b1, ok1 := l[1].([]byte)
		b2, ok2 := l[2].([]byte)
		vAssert("binaries", ok0 && ok1 && ok2 && vAnd(eqBytes(b0, b), vAnd(eqBytes(b1, b[:n-1]), eqBytes(b2, b))))
		p3, ok3 := l[3].(*ZInner)
		p4, ok4 := l[4].(*ZInner)
		vAssert("object-still-shared", ok3 && ok4 && p3 != nil && p3 == p4)
	}
}

// H_C09_long_values_in_positions: a chunked byte slice (more than 4096 octets) and a chunked string (more than 2048
// characters) as struct field, list element, map value and map key (string only), with a value behind them: each
// position has its own decoding path, and each gives back the full content.
func H_C09_long_values_in_positions() {
	n := []int{4096, 4097, 8193}[vChoice("blen", 3)]
	b := make([]byte, n)
	for i := range b {
		b[i] = byte(i*7 + 1)
	}
	b[n-1] = vUint8("b")
	m := []int{2048, 2049, 4097}[vChoice("slen", 3)]
	rs := make([]rune, m)
	for i := range rs {
		rs[i] = rune('a' + i%26)
	}
	rs[m-1] = vScalar("s")
	s := string(rs)
	v := &ZText{Z: 9}
	where := vChoice("where", 4)
	switch where {
	case 0:
		v.B = b
		v.A = s
	case 1:
		v.L = []string{"x", s, "y"}
	case 2:
		v.M = map[string]string{"k": s}
	case 3:
		v.M = map[string]string{s: "v"}
	}
	typMap, nameMap := vExtract(v)
	bs, err := ToBytes(v, nameMap)
	vAssert("encode-noerr", err == nil)
	out, err := ToObject(bs, typMap)
	vAssert("decode-noerr", err == nil)
	got, ok := out.(*ZText)
	vAssert("type", ok && got != nil && got.Z == 9)
	switch where {
	case 0:
		vAssert("field-binary", eqBytes(got.B, b))
		vAssert("field-string", got.A == s)
	case 1:
		vAssert("list-element", len(got.L) == 3 && got.L[0] == "x" && got.L[1] == s && got.L[2] == "y")
	case 2:
		e, has := got.M["k"]
		vAssert("map-value", len(got.M) == 1 && has && e == s)
	case 3:
		e, has := got.M[s]
		vAssert("map-key", len(got.M) == 1 && has && e == "v")
	}
	// the binary as element of an untyped list and as a map value, a value behind it
	if where == 0 {
		l := []interface{}{b, int32(7), map[string]interface{}{"k": b}}
		bs, err := ToBytes(l, nil)
		vAssert("encode-list-noerr", err == nil)
		out, err := ToObject(bs, nil)
		g, ok := out.([]interface{})
		vAssert("list", err == nil && ok && len(g) == 3)
		g0, ok0 := g[0].([]byte)
		g1, ok1 := g[1].(int32)
		gm, okm := g[2].(map[interface{}]interface{})
		vAssert("list-values", ok0 && ok1 && okm && eqBytes(g0, b) && g1 == 7)
		gb, okb := gm["k"].([]byte)
		vAssert("map-value-binary", okb && eqBytes(gb, b))
	}
}
