//go:build verif

package hessian

import (
	"bufio"
	"bytes"
)

// vReader: the decoder's input. A reader may return fewer octets than asked for, so besides the usual buffered
// reader the solver also gets a legal reader that hands out one octet per Read call.
func vReader(b []byte) ByteRuneReader {
	if vChoice("reader", 2) == 1 {
		return &vDribbleReader{vCountingReader{b: b}}
	}
	return bufio.NewReader(bytes.NewReader(b))
}

// specLenInt: octets of the shortest Hessian 2.0 form of a 32-bit int (from the grammar's ranges).
func specLenInt(v int32) int {
	switch {
	case v >= -16 && v <= 47:
		return 1
	case v >= -2048 && v <= 2047:
		return 2
	case v >= -262144 && v <= 262143:
		return 3
	}
	return 5
}

func specLenLong(v int64) int {
	switch {
	case v >= -8 && v <= 15:
		return 1
	case v >= -2048 && v <= 2047:
		return 2
	case v >= -262144 && v <= 262143:
		return 3
	case v >= -2147483648 && v <= 2147483647:
		return 5
	}
	return 9
}

// H_C07_int32_kernel: every int32 encodes in the shortest form and decodes to itself.
func H_C07_int32_kernel() {
	v := vInt32("v")
	b := encodeInt(v)
	vAssert("shortest", len(b) == specLenInt(v))
	got, err := decodeIntValue(vReader(b), _tagRead)
	vAssert("noerr", err == nil)
	vAssert("roundtrip", got == v)
}

func H_C07_int64_kernel() {
	v := vInt64("v")
	b := encodeLong(v)
	vAssert("shortest", len(b) == specLenLong(v))
	got, err := decodeLongValue(vReader(b), _tagRead)
	vAssert("noerr", err == nil)
	vAssert("roundtrip", got == v)
}

type ZInts struct {
	I8  int8
	I16 int16
	I32 int32
	I   int
	I64 int64
	U8  uint8
	U16 uint16
	U32 uint32
	U   uint
	U64 uint64
}

// H_C07_kinds_field: every Go integer kind in a struct field takes every value of its type: the encode call
// fails, or the field comes back with exactly the same value.
func H_C07_kinds_field() {
	v := &ZInts{}
	switch vChoice("kind", 10) {
	case 0:
		v.I8 = vInt8("x")
	case 1:
		v.I16 = vInt16("x")
	case 2:
		v.I32 = vInt32("x")
	case 3:
		v.I = vInt("x")
	case 4:
		v.I64 = vInt64("x")
	case 5:
		v.U8 = vUint8("x")
	case 6:
		v.U16 = vUint16("x")
	case 7:
		v.U32 = vUint32("x")
	case 8:
		v.U = vUint("x")
	case 9:
		v.U64 = vUint64("x")
	}
	tm, nm := vExtract(v)
	bs, err := ToBytes(v, nm)
	if err != nil {
		return // refused: allowed, never silently altered
	}
	out, err := ToObject(bs, tm)
	vAssert("decode-noerr", err == nil)
	g, ok := out.(*ZInts)
	vAssert("type", ok)
	same := vAnd(g.I8 == v.I8, vAnd(g.I16 == v.I16, vAnd(g.I32 == v.I32, vAnd(g.I == v.I, g.I64 == v.I64))))
	same = vAnd(same, vAnd(g.U8 == v.U8, vAnd(g.U16 == v.U16, vAnd(g.U32 == v.U32, vAnd(g.U == v.U, g.U64 == v.U64)))))
	vAssert("exact", same)
}

// H_C07_kinds_elsewhere: integers as list elements, map keys and values, and at top level.
func H_C07_kinds_elsewhere() {
	switch vChoice("where", 7) {
	case 0:
		x := vInt32("x")
		v := []int32{1, x}
		tm, nm := vExtract(v)
		bs, err := ToBytes(v, nm)
		vAssert("enc", err == nil)
		out, err := ToObject(bs, tm)
		g, ok := out.([]int32)
		vAssert("list-int32", err == nil && ok && len(g) == 2 && g[1] == x)
	case 1:
		x := vInt64("x")
		v := []int64{x}
		tm, nm := vExtract(v)
		bs, err := ToBytes(v, nm)
		vAssert("enc", err == nil)
		out, err := ToObject(bs, tm)
		g, ok := out.([]int64)
		vAssert("list-int64", err == nil && ok && len(g) == 1 && g[0] == x)
	case 2:
		x := vInt("x")
		v := []int{x}
		tm, nm := vExtract(v)
		bs, err := ToBytes(v, nm)
		if err != nil {
			return
		}
		out, err := ToObject(bs, tm)
		g, ok := out.([]int)
		vAssert("list-int", err == nil && ok && len(g) == 1 && g[0] == x)
	case 3:
		k, x := vInt32("k"), vInt64("x")
		v := &struct{ M map[int32]int64 }{M: map[int32]int64{k: x}}
		_ = v
		w := &ZIntMap{M: map[int32]int64{k: x}}
		tm, nm := vExtract(w)
		bs, err := ToBytes(w, nm)
		vAssert("enc", err == nil)
		out, err := ToObject(bs, tm)
		g, ok := out.(*ZIntMap)
		vAssert("map-entry", err == nil && ok && len(g.M) == 1)
		y, has := g.M[k]
		vAssert("map-exact", has && y == x)
	case 4:
		x := vUint64("x")
		bs, err := ToBytes(x, nil)
		if err != nil {
			return
		}
		out, err := ToObject(bs, nil)
		g, ok := out.(int64)
		vAssert("top-uint64-bits", err == nil && ok && uint64(g) == x)
	case 5:
		x := vInt("x")
		bs, err := ToBytes(x, nil)
		if err != nil {
			vAssert("refused-only-when-too-wide", x < -2147483648 || x > 2147483647)
			return
		}
		out, err := ToObject(bs, nil)
		g, ok := out.(int32)
		vAssert("top-int", err == nil && ok && int(g) == x)
	case 6:
		x := vUint16("x")
		v := []uint16{x}
		tm, nm := vExtract(v)
		bs, err := ToBytes(v, nm)
		if err != nil {
			return
		}
		out, err := ToObject(bs, tm)
		g, ok := out.([]uint16)
		vAssert("list-uint16", err == nil && ok && len(g) == 1 && g[0] == x)
	}
}

type ZIntMap struct {
	M map[int32]int64
}

// H_C07_tag_partition: no tag octet is claimed by two different scalar classes of the decoder's dispatch.
func H_C07_tag_partition() {
	t := vUint8("tag")
	n := 0
	if intTag(t) {
		n++
	}
	if longTag(t) && t != _long4ByteStartTag {
		n++
	}
	if doubleTag(t) && t != _long4ByteStartTag {
		n++
	}
	if stringTag(t) {
		n++
	}
	if dateTag(t) {
		n++
	}
	if binaryTag(t) {
		n++
	}
	if t == _boolTrueTag || t == _boolFalseTag || t == _nilTag {
		n++
	}
	vAssert("at-most-one-class", n <= 1)
}
