//go:build verif

package hessian

import (
	"bufio"
	"bytes"
)

func vReader(b []byte) ByteRuneReader { return bufio.NewReader(bytes.NewReader(b)) }

// specLenInt: octets of the shortest Hessian 2.0 form of a 32-bit int (from the grammar's ranges).
func specLenInt(v int32) int {
	switch {
	case v >= -16 && v <= 47:
		return 1
	case v >= -2048 && v <= 2047:
		return 2
	case v >= -262144 && v <= 262143:
		return 3
	}
	return 5
}

func specLenLong(v int64) int {
	switch {
	case v >= -8 && v <= 15:
		return 1
	case v >= -2048 && v <= 2047:
		return 2
	case v >= -262144 && v <= 262143:
		return 3
	case v >= -2147483648 && v <= 2147483647:
		return 5
	}
	return 9
}

// H_C07_int32_kernel: every int32 encodes in the shortest form and decodes to itself.
func H_C07_int32_kernel() {
	v := vInt32("v")
	b := encodeInt(v)
	vAssert("shortest", len(b) == specLenInt(v))
	got, err := decodeIntValue(vReader(b), _tagRead)
	vAssert("noerr", err == nil)
	vAssert("roundtrip", got == v)
}

func H_C07_int64_kernel() {
	v := vInt64("v")
	b := encodeLong(v)
	vAssert("shortest", len(b) == specLenLong(v))
	got, err := decodeLongValue(vReader(b), _tagRead)
	vAssert("noerr", err == nil)
	vAssert("roundtrip", got == v)
}
