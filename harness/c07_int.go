//go:build verif

package hessian

import (
	"bufio"
	"bytes"
)

// vReader: the decoder's input. A reader may return fewer octets than asked for, so besides the usual buffered
// reader the solver also gets a legal reader that hands out one octet per Read call.
func vReader(b []byte) ByteRuneReader {
	if vChoice("reader", 2) == 1 {
		return &vDribbleReader{vCountingReader{b: b}}
	}
	return bufio.NewReader(bytes.NewReader(b))
}

// specLenInt: octets of the shortest Hessian 2.0 form of a 32-bit int (from the grammar's ranges).
func specLenInt(v int32) int {
	switch {
	case v >= -16 && v <= 47:
		return 1
	case v >= -2048 && v <= 2047:
		return 2
	case v >= -262144 && v <= 262143:
		return 3
	}
	return 5
}

func specLenLong(v int64) int {
	switch {
	case v >= -8 && v <= 15:
		return 1
	case v >= -2048 && v <= 2047:
		return 2
	case v >= -262144 && v <= 262143:
		return 3
	case v >= -2147483648 && v <= 2147483647:
		return 5
	}
	return 9
}

// H_C07_int32_kernel: every int32 encodes in the shortest form and decodes to itself.
func H_C07_int32_kernel() {
	v := vInt32("v")
	b := encodeInt(v)
	vAssert("shortest", len(b) == specLenInt(v))
	got, err := decodeIntValue(vReader(b), _tagRead)
	vAssert("noerr", err == nil)
	vAssert("roundtrip", got == v)
}

// H_C07_int64_kernel: every int64 encodes in the shortest of the five long forms and decodes to itself.
func H_C07_int64_kernel() {
	v := vInt64("v")
	b := encodeLong(v)
	vAssert("shortest", len(b) == specLenLong(v))
	got, err := decodeLongValue(vReader(b), _tagRead)
	vAssert("noerr", err == nil)
	vAssert("roundtrip", got == v)
}

type ZInts struct {
	I8  int8
	I16 int16
	I32 int32
	I   int
	I64 int64
	U8  uint8
	U16 uint16
	U32 uint32
	U   uint
	U64 uint64
}

// H_C07_kinds_field: every Go integer kind in a struct field takes every value of its type: the encode call
// fails, or the field comes back with exactly the same value.
func H_C07_kinds_field() {
	v := &ZInts{}
	switch vChoice("kind", 10) {
	case 0:
		v.I8 = vInt8("x")
	case 1:
		v.I16 = vInt16("x")
	case 2:
		v.I32 = vInt32("x")
	case 3:
		v.I = vInt("x")
	case 4:
		v.I64 = vInt64("x")
	case 5:
		v.U8 = vUint8("x")
	case 6:
		v.U16 = vUint16("x")
	case 7:
		v.U32 = vUint32("x")
	case 8:
		v.U = vUint("x")
	case 9:
		v.U64 = vUint64("x")
	}
	tm, nm := vExtract(v)
	bs, err := ToBytes(v, nm)
	if err != nil {
		return // refused: allowed, never silently altered
	}
	out, err := ToObject(bs, tm)
	vAssert("decode-noerr", err == nil)
	g, ok := out.(*ZInts)
	vAssert("type", ok)
	same := vAnd(g.I8 == v.I8, vAnd(g.I16 == v.I16, vAnd(g.I32 == v.I32, vAnd(g.I == v.I, g.I64 == v.I64))))
	same = vAnd(same, vAnd(g.U8 == v.U8, vAnd(g.U16 == v.U16, vAnd(g.U32 == v.U32, vAnd(g.U == v.U, g.U64 == v.U64)))))
	vAssert("exact", same)
}

// H_C07_kinds_elsewhere: integers as list elements, map keys and values, and at top level.
func H_C07_kinds_elsewhere() {
	switch vChoice("where", 7) {
	case 0:
		x := vInt32("x")
		v := []int32{1, x}
		tm, nm := vExtract(v)
		bs, err := ToBytes(v, nm)
		vAssert("enc", err == nil)
		out, err := ToObject(bs, tm)
		g, ok := out.([]int32)
		vAssert("list-int32", err == nil && ok && len(g) == 2 && g[1] == x)
	case 1:
		x := vInt64("x")
		v := []int64{x}
		tm, nm := vExtract(v)
		bs, err := ToBytes(v, nm)
		vAssert("enc", err == nil)
		out, err := ToObject(bs, tm)
		g, ok := out.([]int64)
		vAssert("list-int64", err == nil && ok && len(g) == 1 && g[0] == x)
	case 2:
		x := vInt("x")
		v := []int{x}
		tm, nm := vExtract(v)
		bs, err := ToBytes(v, nm)
		if err != nil {
			return
		}
		out, err := ToObject(bs, tm)
		g, ok := out.([]int)
		vAssert("list-int", err == nil && ok && len(g) == 1 && g[0] == x)
	case 3:
		k, x := vInt32("k"), vInt64("x")
		v := &struct{ M map[int32]int64 }{M: map[int32]int64{k: x}}
		_ = v
		w := &ZIntMap{M: map[int32]int64{k: x}}
		tm, nm := vExtract(w)
		bs, err := ToBytes(w, nm)
		vAssert("enc", err == nil)
		out, err := ToObject(bs, tm)
		g, ok := out.(*ZIntMap)
		vAssert("map-entry", err == nil && ok && len(g.M) == 1)
		y, has := g.M[k]
		vAssert("map-exact", has && y == x)
	case 4:
		x := vUint64("x")
		bs, err := ToBytes(x, nil)
		if err != nil {
			return
		}
		out, err := ToObject(bs, nil)
		g, ok := out.(int64)
		vAssert("top-uint64-bits", err == nil && ok && uint64(g) == x)
	case 5:
		x := vInt("x")
		bs, err := ToBytes(x, nil)
		if err != nil {
			vAssert("refused-only-when-too-wide", x < -2147483648 || x > 2147483647)
			return
		}
		out, err := ToObject(bs, nil)
		g, ok := out.(int32)
		vAssert("top-int", err == nil && ok && int(g) == x)
	case 6:
		x := vUint16("x")
		v := []uint16{x}
		tm, nm := vExtract(v)
		bs, err := ToBytes(v, nm)
		if err != nil {
			return
		}
		out, err := ToObject(bs, tm)
		g, ok := out.([]uint16)
		vAssert("list-uint16", err == nil && ok && len(g) == 1 && g[0] == x)
	}
}

type ZIntMap struct {
	M map[int32]int64
}

// H_C07_tag_partition: no tag octet is claimed by two different scalar classes of the decoder's dispatch.
func H_C07_tag_partition() {
	t := vUint8("tag")
	n := 0
	if intTag(t) {
		n++
	}
	if longTag(t) && t != _long4ByteStartTag {
		n++
	}
	if doubleTag(t) && t != _long4ByteStartTag {
		n++
	}
	if stringTag(t) {
		n++
	}
	if dateTag(t) {
		n++
	}
	if binaryTag(t) {
		n++
	}
	if t == _boolTrueTag || t == _boolFalseTag || t == _nilTag {
		n++
	}
	vAssert("at-most-one-class", n <= 1)
}

type ZKindLists struct {
	I8  []int8
	I16 []int16
	I32 []int32
	I64 []int64
	I   []int
	U16 []uint16
	U32 []uint32
	U64 []uint64
	U   []uint
}

type ZKindMaps struct {
	M8   map[int8]int8
	M16  map[int16]int16
	M32  map[int32]int32
	M64  map[int64]int64
	MI   map[int]int
	MU8  map[uint8]uint8
	MU16 map[uint16]uint16
	MU32 map[uint32]uint32
	MU64 map[uint64]uint64
	MU   map[uint]uint
}

// H_C07_all_kinds_in_containers: every Go integer kind as a list element and as a map key and value (the key and
// the value are the same arbitrary number): exactly the same number comes back, or the encode call fails.
func H_C07_all_kinds_in_containers() {
	kind := vChoice("kind", 10)
	if vChoice("container", 2) == 0 {
		v := &ZKindLists{}
		switch kind {
		case 0:
			v.I8 = []int8{1, vInt8("x")}
		case 1:
			v.I16 = []int16{1, vInt16("x")}
		case 2:
			v.I32 = []int32{1, vInt32("x")}
		case 3:
			v.I64 = []int64{1, vInt64("x")}
		case 4:
			v.I = []int{1, vInt("x")}
		case 5:
			v.U16 = []uint16{1, vUint16("x")}
		case 6:
			v.U32 = []uint32{1, vUint32("x")}
		case 7:
			v.U64 = []uint64{1, vUint64("x")}
		case 8:
			v.U = []uint{1, uint(vUint64("x"))}
		default:
			vAssume(false) // []uint8 is binary data (C09)
		}
		tm, nm := vExtract(v)
		bs, err := ToBytes(v, nm)
		if err != nil {
			vAssert("refused-only-when-too-wide", kind == 4 && (v.I[1] < -2147483648 || v.I[1] > 2147483647))
			return
		}
		out, err := ToObject(bs, tm)
		vAssert("decode-noerr", err == nil)
		g, ok := out.(*ZKindLists)
		vAssert("type", ok && g != nil)
		same := len(g.I8) == len(v.I8) && len(g.I16) == len(v.I16) && len(g.I32) == len(v.I32) && len(g.I64) == len(v.I64) && len(g.I) == len(v.I) &&
			len(g.U16) == len(v.U16) && len(g.U32) == len(v.U32) && len(g.U64) == len(v.U64) && len(g.U) == len(v.U)
		vAssert("lengths", same)
		switch kind {
		case 0:
			vAssert("exact", g.I8[1] == v.I8[1] && g.I8[0] == 1)
		case 1:
			vAssert("exact", g.I16[1] == v.I16[1] && g.I16[0] == 1)
		case 2:
			vAssert("exact", g.I32[1] == v.I32[1] && g.I32[0] == 1)
		case 3:
			vAssert("exact", g.I64[1] == v.I64[1] && g.I64[0] == 1)
		case 4:
			vAssert("exact", g.I[1] == v.I[1] && g.I[0] == 1)
		case 5:
			vAssert("exact", g.U16[1] == v.U16[1] && g.U16[0] == 1)
		case 6:
			vAssert("exact", g.U32[1] == v.U32[1] && g.U32[0] == 1)
		case 7:
			vAssert("exact", g.U64[1] == v.U64[1] && g.U64[0] == 1)
		case 8:
			vAssert("exact", g.U[1] == v.U[1] && g.U[0] == 1)
		}
		return
	}
	v := &ZKindMaps{}
	var xi int
	switch kind {
	case 0:
		x := vInt8("x")
		v.M8 = map[int8]int8{x: x}
	case 1:
		x := vInt16("x")
		v.M16 = map[int16]int16{x: x}
	case 2:
		x := vInt32("x")
		v.M32 = map[int32]int32{x: x}
	case 3:
		x := vInt64("x")
		v.M64 = map[int64]int64{x: x}
	case 4:
		xi = vInt("x")
		v.MI = map[int]int{xi: xi}
	case 5:
		x := vUint8("x")
		v.MU8 = map[uint8]uint8{x: x}
	case 6:
		x := vUint16("x")
		v.MU16 = map[uint16]uint16{x: x}
	case 7:
		x := vUint32("x")
		v.MU32 = map[uint32]uint32{x: x}
	case 8:
		x := vUint64("x")
		v.MU64 = map[uint64]uint64{x: x}
	case 9:
		x := uint(vUint64("x"))
		v.MU = map[uint]uint{x: x}
	}
	tm, nm := vExtract(v)
	vMapOrderFixed(true)
	bs, err := ToBytes(v, nm)
	if err != nil {
		vAssert("refused-only-when-too-wide", kind == 4 && (xi < -2147483648 || xi > 2147483647))
		return
	}
	out, err := ToObject(bs, tm)
	vAssert("decode-noerr", err == nil)
	g, ok := out.(*ZKindMaps)
	vAssert("type", ok && g != nil)
	okAll := true
	for k, x := range v.M8 {
		y, has := g.M8[k]
		okAll = vAnd(okAll, vAnd(has, y == x))
	}
	for k, x := range v.M16 {
		y, has := g.M16[k]
		okAll = vAnd(okAll, vAnd(has, y == x))
	}
	for k, x := range v.M32 {
		y, has := g.M32[k]
		okAll = vAnd(okAll, vAnd(has, y == x))
	}
	for k, x := range v.M64 {
		y, has := g.M64[k]
		okAll = vAnd(okAll, vAnd(has, y == x))
	}
	for k, x := range v.MI {
		y, has := g.MI[k]
		okAll = vAnd(okAll, vAnd(has, y == x))
	}
	for k, x := range v.MU8 {
		y, has := g.MU8[k]
		okAll = vAnd(okAll, vAnd(has, y == x))
	}
	for k, x := range v.MU16 {
		y, has := g.MU16[k]
		okAll = vAnd(okAll, vAnd(has, y == x))
	}
	for k, x := range v.MU32 {
		y, has := g.MU32[k]
		okAll = vAnd(okAll, vAnd(has, y == x))
	}
	for k, x := range v.MU64 {
		y, has := g.MU64[k]
		okAll = vAnd(okAll, vAnd(has, y == x))
	}
	for k, x := range v.MU {
		y, has := g.MU[k]
		okAll = vAnd(okAll, vAnd(has, y == x))
	}
	vAssert("exact-entries", okAll)
	vAssert("sizes", len(g.M8)+len(g.M16)+len(g.M32)+len(g.M64)+len(g.MI)+len(g.MU8)+len(g.MU16)+len(g.MU32)+len(g.MU64)+len(g.MU) == 1)
}
