//go:build verif

package hessian

import (
	"bufio"
	"bytes"
	"math"
	"reflect"
	"time"
)

// Translator self-test: the values the repository's own tests use are pushed through the codec once under
// the symbolic executor (concretely) and once natively; every recorded byte string must be identical. This is
// what validates the reflect model and the stdlib-from-SSA execution before any verdict is believed.

type stVo struct {
	Key   string
	Value string
}

func (stVo) HessianCodecName() string { return "hessian.TraceVo" }

type stData struct {
	Seq  int
	Data stVo
}

func (stData) HessianCodecName() string { return "hessian.TraceData" }

type stMessage struct {
	Title string
	Msg   []stData
}

func (stMessage) HessianCodecName() string { return "hessian.Message" }

type stNumS struct {
	V    int
	V8   int8
	V16  int16
	V32  int32
	V64  int64
	U    uint
	U8   uint8
	U16  uint16
	U32  uint32
	U64  uint64
	F32  float32
	F64  float64
	S1   string
	Sa   []string
	Ba   []byte
	F32a []float32
	F64a []float64
	Va16 []int16
	Va64 []int64
	Va   []int
	Ua16 []uint16
	Ua64 []uint64
	Ua   []uint
}

type stCircular struct {
	Num      int
	Previous *stCircular
	Next     *stCircular
	Bs       []byte
	Fs       []float64
	Mp       map[string]string
}

func stErr(err error) []byte {
	if err != nil {
		return []byte("error")
	}
	return []byte("ok")
}

// stReencode records what a decoded value looks like by encoding it again.
func stReencode(name string, v interface{}, err error, nm map[string]string) {
	vRecord(name+"/err", stErr(err))
	if err != nil {
		return
	}
	b, err2 := ToBytes(v, nm)
	vRecord(name+"/again", append(stErr(err2), b...))
}

func H_ST_records() {
	vMapOrderFixed(true) // single-entry maps only; extraction order is C16's subject
	// TestInt / TestLong / TestDouble values
	for i, x := range []int32{0, 1, -1, 47, 48, -16, -17, 2047, 2048, -2048, -2049, 262143, 262144, -262144, -262145, math.MaxInt32, math.MinInt32} {
		b := encodeInt(x)
		vRecord("int/"+itoa(i), b)
		g, err := decodeIntValue(stReader(b), _tagRead)
		vRecord("int-back/"+itoa(i), append(stErr(err), encodeInt(g)...))
	}
	for i, x := range []int64{0, 15, 16, -8, -9, 2047, 2048, -2048, -2049, 262143, 262144, -262144, -262145, math.MaxInt32, math.MaxInt32 + 1, math.MinInt32, math.MinInt32 - 1, math.MaxInt64, math.MinInt64} {
		b := encodeLong(x)
		vRecord("long/"+itoa(i), b)
		g, err := decodeLongValue(stReader(b), _tagRead)
		vRecord("long-back/"+itoa(i), append(stErr(err), encodeLong(g)...))
	}
	for i, x := range []float64{0, 1, -128, -127, 127, 128, -32768, 32767, 32768, 12345.6789, float64(float32(13.14)), math.MaxFloat32, math.MaxFloat64, math.SmallestNonzeroFloat64, math.Inf(1), 1e10, -0.5} {
		b, err := encodeDouble(x)
		vRecord("double/"+itoa(i), append(stErr(err), b...))
		if err == nil {
			g, err := decodeDoubleValue(stReader(b), _tagRead)
			b2, _ := encodeDouble(g)
			vRecord("double-back/"+itoa(i), append(stErr(err), b2...))
		}
	}
	// strings and binaries at the lengths of TestString / TestBinary
	for i, n := range []int{0, 26, 31, 36, 1023, 1024, 2048, 2053, 2079} {
		rs := make([]rune, n)
		for j := range rs {
			rs[j] = rune('A' + j%26)
		}
		if n > 3 {
			rs[1], rs[2], rs[3] = 'é', '世', 0x1F600
		}
		s := string(rs)
		b := encodeString(s)
		vRecord("string/"+itoa(i), b)
		g, err := decodeStringValue(stReader(b), _tagRead)
		vRecord("string-back/"+itoa(i), append(stErr(err), []byte(g)...))
	}
	for i, n := range []int{0, 10, 15, 20, 4096, 4111, 8192} {
		bs := make([]byte, n)
		for j := range bs {
			bs[j] = byte(j * 13)
		}
		b := encodeBinary(bs)
		vRecord("binary/"+itoa(i), b)
		g, err := decodeBinaryValue(stReader(b), _tagRead)
		vRecord("binary-back/"+itoa(i), append(stErr(err), g...))
	}
	// TestDate
	for i, t := range []time.Time{time.Unix(1538213461, 0), time.Unix(1538213461, 123000000), time.Unix(-1, 500000000), {}} {
		b := encodeDate(t)
		vRecord("date/"+itoa(i), b)
	}
	// TestEncodeDecode's NumS
	{
		s := stNumS{V: 1, V8: -2, V16: 99, V32: -999, V64: math.MaxInt64, U: 6, U8: 7, U16: 8, U32: 9, U64: 10, F32: 12345.6789,
			F64: -654321.987654, S1: "HELLO", Sa: []string{"hello", "world"}, Ba: []byte{1, 2, 3, 250}, F32a: []float32{13.14, 520.52},
			F64a: []float64{64.64, 32.32}, Va: []int{1024, 2048}, Va16: []int16{1024, 2048}, Va64: []int64{1024, 2048},
			Ua: []uint{4096, 10240}, Ua16: []uint16{4096, 10240}, Ua64: []uint64{4096, 10240}}
		tm, nm := vExtract(s)
		b, err := ToBytes(s, nm)
		vRecord("nums", append(stErr(err), b...))
		out, err := ToObject(b, tm)
		stReencode("nums-back", out, err, nm)
		keys := ""
		for _, k := range []string{"stNumS", "[]string", "[]int16", "[]float32", "[]uint", "[]uint64", "int16", "float32"} {
			keys += k + "=" + nm[k] + ";"
			if t, ok := tm[nm[k]]; ok {
				keys += t.String() + ";"
			}
		}
		vRecord("nums-names", []byte(keys))
	}
	// the ref graphs of ref_test.go
	{
		c := &stCircular{Num: 12345}
		c.Previous = &stCircular{Num: 12346, Next: c, Bs: []byte{1, 2}, Mp: map[string]string{"a": "b"}}
		c.Next = c.Previous
		c.Fs = []float64{1.5}
		tm, nm := vExtract(c)
		b, err := ToBytes(c, nm)
		vRecord("circular", append(stErr(err), b...))
		out, err := ToObject(b, tm)
		stReencode("circular-back", out, err, nm)
	}
	// TestJavaMessageEncode / Decode: custom names, slice of structs by value, bytes recorded from a Java peer
	{
		msg := &stMessage{Title: "t1", Msg: []stData{{111, stVo{"k1", "v1"}}, {112, stVo{"k2", "v2"}}, {113, stVo{"k3", "v3"}}}}
		tm, nm := vExtract(msg)
		b, err := ToBytes(*msg, nm)
		vRecord("javamsg", append(stErr(err), b...))
		out, err := ToObject(b, tm)
		stReencode("javamsg-back", out, err, nm)
		java := []byte("C\x0fhessian.Message\x92\x05title\x03msg`\x02m1zC\x11hessian.TraceData\x92\x03seq\x04dataa\xd5\xe2@C\x0fhessian.TraceVo\x92\x03key\x05valueb\x02k1\x02v1a\xd5\xe2Ab\x02k2\x02v2")
		tm2 := TypeMapFrom(stMessage{})
		out2, err := ToObject(java, tm2)
		stReencode("javamsg-recorded", out2, err, nm)
	}
	// TestHashSet: typed list recorded from a Java peer
	{
		data := []byte("r\x11java.util.HashSet\x06cccddd\x06aaabbb")
		tm := TypeMapOf(reflect.TypeOf([]string{}))
		tm["java.util.HashSet"] = reflect.TypeOf([]string{})
		out, err := ToObject(data, tm)
		_, nm := vExtract([]string{})
		stReencode("hashset", out, err, nm)
	}
	// TestEncodeDecodeMapType / TestUntypedMap
	{
		m := map[string]string{"k": "v"}
		b, err := ToBytes(m, nil)
		vRecord("map", append(stErr(err), b...))
		out, err := ToObject(b, nil)
		stReencode("map-back", out, err, nil)
	}
	vAssert("recorded", true)
}

func stReader(b []byte) ByteRuneReader { return bufio.NewReader(bytes.NewReader(b)) }
