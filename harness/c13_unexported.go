//go:build verif

package hessian

type ZUnexp struct {
	A int32
	b int32
	C int32
}

type zhidden struct{ X int32 }

type ZEmbHidden struct {
	zhidden
	A int32
}

// H_C13_unexported_fields: a struct with a field the encoder cannot read (unexported, or an embedded unexported
// struct type). The encode call returns; if it reports success, the bytes decode to the very same value.
func H_C13_unexported_fields() {
	x := vInt32("x")
	var v interface{}
	which := vChoice("which", 4)
	switch which {
	case 0:
		v = &ZUnexp{A: 1, b: x, C: 3}
	case 1:
		v = &ZEmbHidden{zhidden: zhidden{X: x}, A: 2}
	case 2:
		v = []interface{}{int32(1), &ZUnexp{A: 1, b: x, C: 3}, int32(3)}
	case 3:
		v = map[string]interface{}{"k": ZUnexp{A: 1, b: x, C: 3}}
	}
	tm, nm := vExtractAll(&ZUnexp{}, &ZEmbHidden{})
	bs, err := ToBytes(v, nm)
	vAssert("returned", true)
	if err != nil {
		return
	}
	out, derr := ToObject(bs, tm)
	vAssert("success-means-decodable", derr == nil)
	switch which {
	case 0:
		g, ok := out.(*ZUnexp)
		vAssert("same-value", ok && g != nil && g.A == 1 && g.b == x && g.C == 3)
	case 1:
		g, ok := out.(*ZEmbHidden)
		vAssert("same-value", ok && g != nil && g.X == x && g.A == 2)
	case 2:
		l, ok := out.([]interface{})
		vAssert("list", ok && len(l) == 3)
		g, okg := l[1].(*ZUnexp)
		vAssert("same-value", okg && g != nil && g.A == 1 && g.b == x && g.C == 3)
	case 3:
		m, ok := out.(map[interface{}]interface{})
		vAssert("map", ok && len(m) == 1)
		g, okg := m["k"].(*ZUnexp)
		vAssert("same-value", okg && g != nil && g.A == 1 && g.b == x && g.C == 3)
	}
}

type ZSBUs struct {
	A int32
	F []uintptr
}
type ZSBCs struct {
	A int32
	F []complex64
}
type ZSBCh struct {
	A int32
	F [][]chan int
}
type ZSBMu struct {
	A int32
	F map[string]uintptr
}
type ZSBMk struct {
	A int32
	F map[complex128]string
}
type ZSBAr struct {
	A int32
	F [2]chan int
}
type ZSBIs struct {
	A int32
	F []int
}

// H_C13_static_containers: the unrepresentable element sits in a container whose static element type already
// says so ([]uintptr, []complex64, [][]chan int, map[string]uintptr, a map keyed by complex numbers, an array of
// channels) or is a Go int too wide for the wire in a []int: the encode call fails; in particular the element or
// entry is not dropped, narrowed or written as some other type.
func H_C13_static_containers() {
	x := vInt32("x")
	var v interface{}
	which := vChoice("which", 8)
	switch which {
	case 0:
		v = &ZSBUs{A: x, F: []uintptr{1, uintptr(uint32(x))}}
	case 1:
		v = &ZSBCs{A: x, F: []complex64{complex(1, 2)}}
	case 2:
		v = &ZSBCh{A: x, F: [][]chan int{{make(chan int)}}}
	case 3:
		v = &ZSBMu{A: x, F: map[string]uintptr{"k": 1}}
	case 4:
		v = &ZSBMk{A: x, F: map[complex128]string{complex(1, 2): "z"}}
	case 5:
		v = &ZSBAr{A: x, F: [2]chan int{make(chan int), nil}}
	case 6:
		v = &ZSBIs{A: 1, F: []int{1, int(x) << 20, 3}}
	case 7: // the same containers on their own
		switch vChoice("top", 3) {
		case 0:
			hMustFail([]uintptr{1})
		case 1:
			hMustFail(map[string]interface{}{"k": []complex128{1}})
		case 2:
			hMustFail([]interface{}{[]uintptr{}, map[complex64]int32{1: 1}})
		}
		return
	}
	_, nm := vExtract(v)
	bs, err := ToBytes(v, nm)
	if which == 6 {
		wide := int(x)<<20 < -2147483648 || int(x)<<20 > 2147483647
		if err == nil {
			vAssert("wide-int-not-narrowed", !wide)
			_, n, p := refParse(bs)
			vAssert("well-formed-if-success", p.err == "" && n == len(bs))
		} else {
			vAssert("refused-only-when-too-wide", wide)
		}
		return
	}
	if err == nil {
		_, n, p := refParse(bs)
		vAssert("well-formed-if-success", p.err == "" && n == len(bs))
	}
	vAssert("fail-stop", err != nil)
}

func hMustFail(v interface{}) {
	_, err := ToBytes(v, nil)
	vAssert("fail-stop", err != nil)
	e := NewEncoder(nil, nil)
	_, err = e.Encode(v)
	vAssert("fail-stop-encoder", err != nil)
}
