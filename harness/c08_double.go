//go:build verif

package hessian

// specLenDouble: octets of the shortest exact Hessian 2.0 double form, written from the property statement
// (1 for 0 and 1; 2 for integers in [-128,127]; 3 for integers in [-32768,32767]; 5 when exactly a float32; else 9).
func specLenDouble(v float64) int {
	if v == 0 || v == 1 {
		return 1
	}
	if v >= -128 && v <= 127 && float64(int64(v)) == v {
		return 2
	}
	if v >= -32768 && v <= 32767 && float64(int64(v)) == v {
		return 3
	}
	if float64(float32(v)) == v {
		return 5
	}
	return 9
}

// H_C08_double_kernel: every float64 bit pattern encodes without error, in the shortest exact form,
// and decodes to the same number (NaN to NaN).
func H_C08_double_kernel() {
	v := vFloat64("v")
	b, err := encodeDouble(v)
	vAssert("encode-noerr", err == nil)
	isNaN := v != v
	if !isNaN {
		vAssert("shortest", len(b) == specLenDouble(v))
	}
	got, derr := decodeDoubleValue(vReader(b), _tagRead)
	vAssert("decode-noerr", derr == nil)
	if isNaN {
		vAssert("nan", got != got)
	} else {
		vAssert("roundtrip", got == v)
	}
}

// H_C08_decode_forms: each compact double form decodes to the number the grammar assigns to it.
func H_C08_decode_forms() {
	switch vChoice("form", 4) {
	case 0:
		x := vInt8("x")
		got, err := decodeDoubleValue(vReader([]byte{0x5d, byte(x)}), _tagRead)
		vAssert("b1", err == nil && got == float64(x))
	case 1:
		x := vInt16("x")
		got, err := decodeDoubleValue(vReader([]byte{0x5e, byte(x >> 8), byte(x)}), _tagRead)
		vAssert("b2", err == nil && got == float64(x))
	case 2:
		got, err := decodeDoubleValue(vReader([]byte{0x5b}), _tagRead)
		vAssert("zero", err == nil && got == 0)
	case 3:
		got, err := decodeDoubleValue(vReader([]byte{0x5c}), _tagRead)
		vAssert("one", err == nil && got == 1)
	}
}
