//go:build verif

package hessian

// specLenDouble: octets of the shortest exact Hessian 2.0 double form, written from the property statement
// (1 for 0 and 1; 2 for integers in [-128,127]; 3 for integers in [-32768,32767]; 5 when exactly a float32; else 9).
func specLenDouble(v float64) int {
	if v == 0 || v == 1 {
		return 1
	}
	if v >= -128 && v <= 127 && float64(int64(v)) == v {
		return 2
	}
	if v >= -32768 && v <= 32767 && float64(int64(v)) == v {
		return 3
	}
	if float64(float32(v)) == v {
		return 5
	}
	return 9
}

// H_C08_double_kernel: every float64 bit pattern encodes without error, in the shortest exact form,
// and decodes to the same number (NaN to NaN).
func H_C08_double_kernel() {
	v := vFloat64("v")
	b, err := encodeDouble(v)
	vAssert("encode-noerr", err == nil)
	isNaN := v != v
	if !isNaN {
		vAssert("shortest", len(b) == specLenDouble(v))
	}
	got, derr := decodeDoubleValue(vReader(b), _tagRead)
	vAssert("decode-noerr", derr == nil)
	if isNaN {
		vAssert("nan", got != got)
	} else {
		vAssert("roundtrip", got == v)
	}
}

// H_C08_decode_forms: each compact double form decodes to the number the grammar assigns to it.
func H_C08_decode_forms() {
	switch vChoice("form", 4) {
	case 0:
		x := vInt8("x")
		got, err := decodeDoubleValue(vReader([]byte{0x5d, byte(x)}), _tagRead)
		vAssert("b1", err == nil && got == float64(x))
	case 1:
		x := vInt16("x")
		got, err := decodeDoubleValue(vReader([]byte{0x5e, byte(x >> 8), byte(x)}), _tagRead)
		vAssert("b2", err == nil && got == float64(x))
	case 2:
		got, err := decodeDoubleValue(vReader([]byte{0x5b}), _tagRead)
		vAssert("zero", err == nil && got == 0)
	case 3:
		got, err := decodeDoubleValue(vReader([]byte{0x5c}), _tagRead)
		vAssert("one", err == nil && got == 1)
	}
}

type ZFloats struct {
	F32 float32
	F64 float64
	Fs  []float32
}

// H_C08_float32_field: every float32 bit pattern in a struct field and in a []float32 is recovered exactly
// (NaN as NaN).
func H_C08_float32_field() {
	f := vFloat32("f")
	v := &ZFloats{F32: 1.5, F64: 2.5}
	if vChoice("where", 2) == 0 {
		v.F32 = f
	} else {
		v.Fs = []float32{f}
	}
	tm, nm := vExtract(v)
	bs, err := ToBytes(v, nm)
	vAssert("encode-noerr", err == nil)
	out, err := ToObject(bs, tm)
	vAssert("decode-noerr", err == nil)
	g, ok := out.(*ZFloats)
	vAssert("type", ok && len(g.Fs) == len(v.Fs))
	vAssert("f32-exact", vAnd(eqF32(g.F32, v.F32), eqF64(g.F64, v.F64)))
	if len(v.Fs) == 1 {
		vAssert("f32-elem-exact", eqF32(g.Fs[0], f))
	}
}

// H_C08_double_positions: a float64 at top level and in a struct field, all bit patterns.
func H_C08_double_positions() {
	x := vFloat64("x")
	if vChoice("where", 2) == 0 {
		bs, err := ToBytes(x, nil)
		vAssert("encode-noerr", err == nil)
		out, err := ToObject(bs, nil)
		g, ok := out.(float64)
		vAssert("top", err == nil && ok && eqF64(g, x))
		return
	}
	v := &ZFloats{F64: x}
	tm, nm := vExtract(v)
	bs, err := ToBytes(v, nm)
	vAssert("encode-noerr", err == nil)
	out, err := ToObject(bs, tm)
	g, ok := out.(*ZFloats)
	vAssert("field", err == nil && ok && eqF64(g.F64, x))
}
