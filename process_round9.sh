#!/bin/sh
# round 9: two single-point mutations per chosen property in /tmp/mut9_Cnn/{a,b}
cd /verif
for d in /tmp/mut9_C*/[ab]; do
  [ -f $d/patch.diff ] || { echo "$d: no patch"; continue; }
  P=$(basename $(dirname $d) | sed "s/mut9_//"); K=$(basename $d)
  NN=$(echo $P | sed 's/C//')
  ID=Q${NN}${K}-${P}
  [ -d seeded/$ID ] && continue
  if ./confirm_seed.sh $P $d > .work/confirm-$ID.log 2>&1; then
    mkdir -p seeded/$ID; cp $d/patch.diff $d/zz_demo_test.go $d/meta.txt seeded/$ID/
    ./eval_seed.sh $ID $P 2>&1 | grep "^seed\|INCONCL" | cut -c1-200
  else
    echo "$ID: NOT CONFIRMED: $(tail -1 .work/confirm-$ID.log)"
  fi
done
