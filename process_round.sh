#!/bin/sh
# process_round.sh <round-no> <prefix>: confirm every delivered candidate in /tmp/mut<round>_Cnn, save it under
# seeded/<prefix><nn>-<Cnn>/ and evaluate it against the check of the property it breaks.
R=$1; PFX=$2
cd /verif
for d in /tmp/mut${R}_C*; do
  P=$(basename $d | sed "s/mut${R}_//")
  [ -f $d/patch.diff ] || { echo "$P: no patch yet"; continue; }
  NN=$(echo $P | sed 's/C//')
  ID=${PFX}${NN}-${P}
  [ -d seeded/$ID ] && continue
  if ./confirm_seed.sh $P $d > .work/confirm-$ID.log 2>&1; then
    mkdir -p seeded/$ID; cp $d/patch.diff $d/zz_demo_test.go $d/meta.txt seeded/$ID/
    ./eval_seed.sh $ID $P 2>&1 | grep "^seed\|INCONCL" | cut -c1-200
  else
    echo "$P: NOT CONFIRMED: $(tail -1 .work/confirm-$ID.log)"
  fi
done
