#!/bin/sh
cd /verif
run() { ./eval_seed.sh "$1" "$2" 2>&1 | grep "^seed\|INCONCL" | cut -c1-230; }
run T02-C02-lazy-reset-refcount C02,C11
run T03-C03-holder-change-same-backing C03
run T04-C04-skipped-field-clears-refs C04,C05
run T05-C05-field-index-cache-per-stream C05
run T06-C06-lazy-reset-refcount C06,C11
run T07-C07-readbytes-single-read C07,C06
run T08-C08-readbytes-short-read-error C08,C06
run T09-C09-binarylen-single-read C09,C06
run T10-C10-null-element-reuses-previous C10,C01
run T11-C11-reset-early-return C11
run T12-C12-lazy-logger-install C12
run T13-C13-fields-by-cached-definition C13
run T14-C14-error-prints-cyclic-key C14
run T15-C15-shadowed-err-long-form C15
run T17-C17-return-evicts-blocking C17
