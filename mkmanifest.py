#!/usr/bin/env python3
# Regenerates MANIFEST.json from the table below (kept in one place so the manifest stays valid at all times).
import json
T = "SMT-decided bounded symbolic execution of /repo's go/ssa (own executor 'gosym'; z3 decides every branch alternative and every assertion; counterexamples replayed natively)"
base_note = "trusted base: z3 4.8.12 (cvc5 / z3 5.1 in the race for mul/div kernels and in the thorough cross-check); reflect is a model over go/types validated by native replay; fmt, runtime.Caller, logger, time.Now stubbed; bounds in evidence.coverage.bounds; anything outside them is not claimed"
C = {
 "C01": ("For each zoo shape (types, lengths, nil-ness fixed by case split) the leaves are symbolic and z3 decides, over all leaf values at once, that ToObject(ToBytes(v)) succeeds and equals v under the hand-written normalising comparators.", ""),
 "C02": ("The emitted bytes (symbolic where the leaves are) are parsed by an independent grammar reader executed by the same engine; z3 decides that the parse succeeds, consumes everything and denotes the hand-built expected abstract value (class names, lower-cased field names in order, list type and count, ref ordinals).", "refParse (harness/ref_parse.go) is written from the published byte-code map; one open known finding (x4b seconds)"),
 "C03": ("Reference renderings of a value in every alternative wire form are built in the harness with symbolic payloads; z3 decides that decoding each equals decoding the encoder's own rendering.", ""),
 "C04": ("All edge assignments over 2 nodes x 11 filler kinds are enumerated as shapes; per shape the engine executes encode+decode symbolically (address model for the encoder's ref table), asserts termination within a step bound and compares nil-ness / identity / payload of all access paths up to length 3.", "graph shapes are enumerated, the solver decides payload and branch feasibility only; >2 nodes not claimed"),
 "C05": ("Reference-encoded instances whose definition permutes / drops / adds fields, at definition-table positions up to 17 (40 thorough), with symbolic field values: z3 decides each Go field gets the wire value of its name.", ""),
 "C06": ("Sequences of 2 (3) mixed values through one encoder/decoder or serializer on a reader without read-ahead; after every read the reader offset must equal the end offset the reference parser computes for that value, the value must equal the written one and be a documented type.", "one open known finding (bare map comes back as map[interface{}]interface{})"),
 "C07": ("encodeInt/encodeLong/decode kernels with the value as one symbolic bit-vector: shortest form and round trip decided for all 2^32 / 2^64 values at once; the ten Go integer kinds through struct fields, lists, map entries and top level: exact or refused.", ""),
 "C08": ("encodeDouble/decodeDoubleValue with the value as one symbolic 64-bit pattern in the FP theory: no error, shortest exact form, same number (NaN to NaN) for all 2^64 patterns; float32 fields for all 2^32.", "amd64 float->int conversion semantics assumed"),
 "C09": ("Strings of up to 3 arbitrary code points (all UTF-8 width patterns) and long strings/binaries at the real chunk constants with an arbitrary code point/octet around every boundary: round trip and an independent parse of the wire (character-counted prefixes, chunks never split a code point).", ""),
 "C10": ("Seconds, milliseconds and sub-millisecond part as three symbolic 64-bit variables covering years 1..9999; time.Unix etc. executed from the stdlib SSA; exactness for whole milliseconds and <1ms otherwise decided in one pass (wrapped-integer rendering raced against bit-vector back ends).", ""),
 "C11": ("After each short history of earlier uses the probe's bytes / value / error are compared with a fresh instance's; probe value, bytes and maps are frozen so that any store on any feasible path is reported.", "histories of length 1 (2 thorough)"),
 "C12": ("Reduction: no call writes memory another goroutine can reach (all package-level variables, the shared maps, the input) => no race and schedule-independent results. The engine checks every store on every feasible path of 8 call kinds against the frozen shared roots.", "interleavings are discharged by the reduction, not explored; reflect/bytes/fmt/logger internals trusted"),
 "C13": ("chan / func / complex128 at 12 positions of otherwise supported values: the encode call must return an error (no panic, and any success must at least be a well-formed stream).", "shapes enumerated; solver role small (one symbolic neighbour value)"),
 "C14": ("The input is an arbitrary buffer: every byte string of length 0..3 (4 thorough), every single-octet damage and every prefix of six valid messages, against a nil and a populated type map, through one-shot and streaming entry points: no panic, bounded steps, no allocation driven by a merely declared length.", ""),
 "C15": ("A harness writer fails at the k-th Write for every k of the fault-free run, in 4 fault kinds, through 3 entry points, for 8 values: if the fault fired the call must return an error.", "fault positions enumerated exhaustively per value; solver decides the symbolic neighbours"),
 "C16": ("ExtractTypeNameMap / TypeMapOf executed on recursive, nested-slice and custom-named types from zero-value to cyclic witnesses, exploring map iteration orders; termination within a step bound, closure, custom names, and sufficiency of the maps for another (symbolic) value of the type.", "control flow depends on types and nil-ness: mostly concrete forks, solver decides the sufficiency round trip"),
 "C17": ("One Get / Return step from every pool state (capacity 0..8 x fill) plus the library factories; a blocking channel operation ends the path as a violation.", "reduction to sequential steps assumes atomic channel operations (language specification); steps are concrete, the solver decides the factory usability assertions"),
}
checks = []
for pid in sorted(C):
    text, extra = C[pid]
    checks.append({
        "property_id": pid,
        "quick_cmd": f"./verif check {pid} --tier quick",
        "thorough_cmd": f"./verif check {pid} --tier thorough",
        "evidence_file": f"/verif/evidence/{pid}.json",
        "replay_cmd_template": "./verif replay {path}",
        "engine": "gosym",
        "level_claimed": {"category": "model_checking", "text": "Bounded: " + text + " Holds only within the bounds written to the evidence file.", "design_ref": f"DESIGN.md §6 {pid}"},
        "level_note": (extra + "; " if extra else "") + base_note,
        "technique": T,
    })
m = {
 "version": 1,
 "setup_cmd": "./verif setup",
 "hooks": {"guard": "verif",
           "enable": "harness files (//go:build verif) are injected into package hessian in memory via go/packages Overlay and `go test -overlay`; nothing is written into /repo and /repo contains no hook",
           "baseline_off_cmd": "cd /repo && go test -vet=off -count=1 ./...",
           "source_commits": [], "add_only": True},
 "engines": [{"name": "gosym", "path": "/verif/engine", "serves_properties": sorted(C),
              "kind_free_text": "own symbolic executor for go/ssa (x/tools v0.29.0): path-at-a-time, model-guided branching, sliced path conditions, SMT-LIB2 to z3 (incremental + one-shot), cvc5 and z3 5.1 raced on mul/div kernels, native replay of counterexamples"}],
 "checks": checks,
 "not_applicable": [],
 "notes": "Every check is solver-based bounded symbolic execution of /repo's current working tree (encoding regenerated on every run). Exit 0 = held within the stated bounds (KNOWN-FINDING lines for listed open findings); exit 1 + VIOLATION line = counterexample that reproduced natively; exit 3 = INCONCLUSIVE (solver unknown, unwinding, unsupported construct, spurious counterexample) - never reported as success. Known findings: /verif/known_findings.jsonl.",
}
json.dump(m, open("/verif/MANIFEST.json", "w"), indent=1)
print("manifest written:", len(checks), "checks")
