#!/bin/sh
# confirm_seed.sh <PROP> [dir]: independently confirm a candidate seeded change in a fresh scratch worktree:
#   demo passes on the unchanged tree; with the patch the package builds, the existing suite passes, the demo fails.
P=$1
D=${2:-/tmp/mut_$P}
export GOFLAGS=-mod=mod GOPROXY=off GOSUMDB=off GOTOOLCHAIN=local
W=/tmp/cf_$P
git -C /repo worktree remove --force $W >/dev/null 2>&1
git -C /repo worktree add -q --detach $W HEAD || exit 2
cd $W
cp $D/zz_demo_test.go .
go test -vet=off -count=1 -run 'TestDemo' . > $D/confirm_clean.log 2>&1; A=$?
git apply $D/patch.diff || { echo "patch does not apply"; git -C /repo worktree remove --force $W; exit 2; }
go build ./... > $D/confirm_build.log 2>&1; B=$?
rm -f zz_demo_test.go
go test -vet=off -count=1 ./... > $D/confirm_suite.log 2>&1; S=$?
cp $D/zz_demo_test.go .
go test -vet=off -count=1 -run 'TestDemo' . > $D/confirm_patched.log 2>&1; F=$?
cd /; git -C /repo worktree remove --force $W
echo "$P: demo-on-clean exit=$A (want 0)  build=$B (want 0)  suite-with-patch=$S (want 0)  demo-with-patch=$F (want !=0)"
[ $A -eq 0 ] && [ $B -eq 0 ] && [ $S -eq 0 ] && [ $F -ne 0 ]
