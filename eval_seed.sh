#!/bin/sh
# eval_seed.sh <seed-id> <PROP>[,<PROP>...] [tier]: apply /verif/seeded/<seed-id>/patch.diff to /repo, run the checks,
# and ALWAYS undo it straight afterwards.
ID=$1; PROPS=$2; TIER=${3:-quick}
cd /verif
[ -z "$(git -C /repo status --porcelain)" ] || { echo "/repo not clean"; exit 2; }
git -C /repo apply /verif/seeded/$ID/patch.diff || { echo "patch does not apply"; exit 2; }
# (evidence files are rewritten by every check: the ones written against a seeded tree are thrown away too)
trap 'git -C /repo checkout -- . ; git -C /verif checkout -- evidence ; echo "(repo restored)"' EXIT INT TERM
for P in $(echo $PROPS | tr , ' '); do
  s=$(date +%s)
  ./verif check $P --tier $TIER > .work/seed-$ID-$P.log 2>&1; rc=$?
  e=$(date +%s)
  echo "seed $ID vs $P: exit=$rc wall=$((e-s))s $(grep -c '^VIOLATION' .work/seed-$ID-$P.log) VIOLATION lines"
  grep -m2 -A1 '^VIOLATION' .work/seed-$ID-$P.log | cut -c1-220
  grep -m2 '^INCONCLUSIVE' .work/seed-$ID-$P.log | cut -c1-220
done
